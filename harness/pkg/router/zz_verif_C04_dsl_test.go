//go:build verif

package router

import (
	"fmt"
	"strings"
	"testing"
	"time"

	v2 "mosn.io/mosn/pkg/config/v2"
	"mosn.io/mosn/pkg/types"
	"mosn.io/mosn/pkg/verifrt/vreport"
)

// C04 part 2c: rules matched by `dsl_expressions` (pkg/router/dsl_rule.go).
//
// What the code does (read, not assumed by the oracle): a route whose match has
// no prefix/path/regex/variables but a non-empty `dsl_expressions` list becomes a
// DslExpressionRouteRuleImpl. Every expression is CEXL text (Go expression
// syntax: == != && || ! ( ), string literals, `a | b` = first defined,
// `conditional(c, a, b)`) compiled to a CEL program over the attribute manifest
// of pkg/cel/extract; at lookup time the attributes request.path / request.method
// / request.host come from the request variables x-mosn-path / -method / -host
// (absent when unset or empty), request.headers is the header map,
// request.query_params / request.url_path come from the query-string variable.
// The rule holds iff EVERY expression of the list evaluates to true; an
// evaluation error (a missing map key, a missing attribute, an attribute that
// needs the request info, which the router does not have) makes the rule not
// hold. Configuration mistakes: an expression that does not compile is dropped
// with an error log (a rule left with no expression then matches every
// request); an empty expression is skipped; the result type is not checked, so
// an expression of another type than bool is accepted.
//
// The oracle is an evaluator of a tiny expression tree written here over
// package strings/regexp; it never calls pkg/cel or the router. An expression is
// evaluated under two readings:
//
//	plain: a variable that is absent equals nothing (== false, != true),
//	       ordinary two-valued logic;
//	CEL:   reading an absent variable is an error; !error = error; && is false
//	       if any side is false, else error if any side is an error; || is true if
//	       any side is true, else error if any side is an error; conditional
//	       evaluates only the chosen branch; an error at the top = does not hold
//	       (the CEL specification's commutative logic, "CEXL syntax and CEL
//	       runtime" being the documented mode of the route compiler).
//
// Where both readings agree the verdict is decided and compared; where they
// differ (a negation around an absent header, `!=` on an absent header) and for
// every "raw" mistake above the statement defines nothing: the rule evaluates
// to unknown and either outcome is admitted - but the lookup must still return
// one of the admitted routes, so a lookup that PANICS is reported.

type c04Dsl struct {
	Op   string   `json:"op"` // true false eq ne prefix re eqdef not and or cond raw
	Var  string   `json:"var,omitempty"`
	Val  string   `json:"val,omitempty"`
	Args []c04Dsl `json:"args,omitempty"`
}

func c04DslVarText(v string) string {
	switch {
	case v == "path":
		return "request.path"
	case v == "method":
		return "request.method"
	case v == "host":
		return "request.host"
	case v == "urlpath":
		return "request.url_path"
	case strings.HasPrefix(v, "hdr:"):
		return fmt.Sprintf("request.headers[%q]", v[4:])
	case strings.HasPrefix(v, "query:"):
		return fmt.Sprintf("request.query_params[%q]", v[6:])
	}
	panic("C04 harness: dsl variable not in alphabet: " + v)
}

// Text renders the expression as CEXL source.
func (e c04Dsl) Text() string {
	switch e.Op {
	case "true", "false":
		return e.Op
	case "eq":
		return fmt.Sprintf("%s == %q", c04DslVarText(e.Var), e.Val)
	case "ne":
		return fmt.Sprintf("%s != %q", c04DslVarText(e.Var), e.Val)
	case "prefix":
		return fmt.Sprintf("%s.startsWith(%q)", c04DslVarText(e.Var), e.Val)
	case "re":
		// CEXL heritage: the RECEIVER is the pattern (pkg/cel/runtime_test.go: `"^test".matches(request.host)`)
		return fmt.Sprintf("%q.matches(%s)", e.Val, c04DslVarText(e.Var))
	case "eqdef":
		return fmt.Sprintf("(%s | \"none\") == %q", c04DslVarText(e.Var), e.Val)
	case "not":
		return "!(" + e.Args[0].Text() + ")"
	case "and":
		return "(" + e.Args[0].Text() + ") && (" + e.Args[1].Text() + ")"
	case "or":
		return "(" + e.Args[0].Text() + ") || (" + e.Args[1].Text() + ")"
	case "cond":
		return "conditional(" + e.Args[0].Text() + ", " + e.Args[1].Text() + ", " + e.Args[2].Text() + ")"
	case "raw":
		return e.Val
	}
	panic("C04 harness: dsl op not in alphabet: " + e.Op)
}

// c04DslVal: value of a request variable and whether it is present.
func c04DslVal(v string, q c04Req) (string, bool) {
	switch {
	case v == "path":
		return q.Path, q.Path != ""
	case v == "method":
		return q.Method, q.Method != ""
	case v == "host":
		return q.Host, q.Host != ""
	case v == "urlpath":
		if q.Path == "" {
			return "", false
		}
		if q.Query != "" {
			return q.Path + "?" + q.Query, true
		}
		return q.Path, true
	case strings.HasPrefix(v, "hdr:"):
		s, ok := q.Headers[v[4:]]
		return s, ok
	case strings.HasPrefix(v, "query:"):
		// alphabet queries are plain k=v pairs joined by '&', no escapes; first value wins
		for _, kv := range strings.Split(q.Query, "&") {
			if kv == "" {
				continue
			}
			k, val := kv, ""
			if i := strings.Index(kv, "="); i >= 0 {
				k, val = kv[:i], kv[i+1:]
			}
			if k == v[6:] {
				return val, true
			}
		}
		return "", false
	}
	panic("C04 harness: dsl variable not in alphabet: " + v)
}

func c04DslLeaf(e c04Dsl, val string) bool {
	switch e.Op {
	case "eq":
		return val == e.Val
	case "ne":
		return val != e.Val
	case "prefix":
		return strings.HasPrefix(val, e.Val)
	case "re":
		return c04Re(e.Val).MatchString(val)
	}
	panic("C04 harness: not a leaf: " + e.Op)
}

// plain reading
func c04DslPlain(e c04Dsl, q c04Req) bool {
	switch e.Op {
	case "true":
		return true
	case "false":
		return false
	case "eq", "prefix", "re":
		val, ok := c04DslVal(e.Var, q)
		return ok && c04DslLeaf(e, val)
	case "ne":
		val, ok := c04DslVal(e.Var, q)
		return !ok || c04DslLeaf(e, val)
	case "eqdef":
		val, ok := c04DslVal(e.Var, q)
		if !ok {
			val = "none"
		}
		return val == e.Val
	case "not":
		return !c04DslPlain(e.Args[0], q)
	case "and":
		return c04DslPlain(e.Args[0], q) && c04DslPlain(e.Args[1], q)
	case "or":
		return c04DslPlain(e.Args[0], q) || c04DslPlain(e.Args[1], q)
	case "cond":
		if c04DslPlain(e.Args[0], q) {
			return c04DslPlain(e.Args[1], q)
		}
		return c04DslPlain(e.Args[2], q)
	}
	panic("C04 harness: dsl op not in alphabet: " + e.Op)
}

// CEL reading: 0 false, 1 true, 2 error
func c04DslCel(e c04Dsl, q c04Req) int {
	b := func(x bool) int {
		if x {
			return 1
		}
		return 0
	}
	switch e.Op {
	case "true":
		return 1
	case "false":
		return 0
	case "eq", "ne", "prefix", "re":
		val, ok := c04DslVal(e.Var, q)
		if !ok {
			return 2
		}
		return b(c04DslLeaf(e, val))
	case "eqdef":
		if !strings.HasPrefix(e.Var, "hdr:") {
			panic("C04 harness: eqdef is in the alphabet for headers only")
		}
		val, ok := c04DslVal(e.Var, q)
		if !ok {
			val = "none"
		}
		return b(val == e.Val)
	case "not":
		switch c04DslCel(e.Args[0], q) {
		case 0:
			return 1
		case 1:
			return 0
		}
		return 2
	case "and":
		x, y := c04DslCel(e.Args[0], q), c04DslCel(e.Args[1], q)
		switch {
		case x == 0 || y == 0:
			return 0
		case x == 2 || y == 2:
			return 2
		}
		return 1
	case "or":
		x, y := c04DslCel(e.Args[0], q), c04DslCel(e.Args[1], q)
		switch {
		case x == 1 || y == 1:
			return 1
		case x == 2 || y == 2:
			return 2
		}
		return 0
	case "cond":
		switch c04DslCel(e.Args[0], q) {
		case 1:
			return c04DslCel(e.Args[1], q)
		case 0:
			return c04DslCel(e.Args[2], q)
		}
		return 2
	}
	panic("C04 harness: dsl op not in alphabet: " + e.Op)
}

func c04RefDslExpr(e c04Dsl, q c04Req) c04Tri {
	if e.Op == "raw" {
		return c04Unknown
	}
	p := c04DslPlain(e, q)
	if p == (c04DslCel(e, q) == 1) {
		return c04B(p)
	}
	return c04Unknown
}

// c04RefDslRule: the expressions of one rule are matchers that must ALL hold.
func c04RefDslRule(es []c04Dsl, q c04Req) c04Tri {
	res := c04Yes
	for _, e := range es {
		res = c04And(res, c04RefDslExpr(e, q))
	}
	return res
}

// c04DslExprClass / c04DslRuleClass: classes for finding keys - the shape of the
// rule, never its concrete expressions (one defect = a handful of keys).
func c04DslExprClass(e c04Dsl) string {
	switch e.Op {
	case "raw":
		return "raw:" + e.Var
	case "true", "false":
		return "constant"
	case "eq", "ne", "prefix", "re":
		return "comparison"
	case "eqdef":
		return "comparison with default value"
	}
	return "logical operator"
}

func c04DslRuleClass(r c04Rule) string {
	if len(r.Dsl) == 1 {
		return "dsl[" + c04DslExprClass(r.Dsl[0]) + "]"
	}
	return fmt.Sprintf("dsl[%d expressions]", len(r.Dsl))
}

func c04DslUsesQuery(es []c04Dsl) bool {
	for _, e := range es {
		if strings.HasPrefix(e.Var, "query:") || e.Var == "urlpath" || c04DslUsesQuery(e.Args) {
			return true
		}
	}
	return false
}

func c04DslHasRaw(rules []c04Rule, class string) bool {
	for _, r := range rules {
		for _, e := range r.Dsl {
			if e.Op == "raw" && e.Var == class {
				return true
			}
		}
	}
	return false
}

// ---------------------------------------------------------------------------
// alphabets

var (
	c04DPathA  = c04Dsl{Op: "eq", Var: "path", Val: "/a"}
	c04DGet    = c04Dsl{Op: "eq", Var: "method", Val: "GET"}
	c04DHostA  = c04Dsl{Op: "eq", Var: "host", Val: "a.com"}
	c04DHdr1   = c04Dsl{Op: "eq", Var: "hdr:h", Val: "1"}
	c04DTrue   = c04Dsl{Op: "true"}
	c04DFalse  = c04Dsl{Op: "false"}
	c04DAtoms  = []c04Dsl{c04DPathA, c04DGet, c04DHostA, c04DHdr1}
	c04DRawBad = c04Dsl{Op: "raw", Var: "compile-error", Val: `request.path == `}
	c04DRawAtt = c04Dsl{Op: "raw", Var: "unknown-attribute", Val: `request.nosuch == "1"`}
	c04DRawStr = c04Dsl{Op: "raw", Var: "non-bool", Val: `request.path`}
	c04DRawInf = c04Dsl{Op: "raw", Var: "needs-request-info", Val: `context.protocol == "http"`}
)

func c04DNot(a c04Dsl) c04Dsl        { return c04Dsl{Op: "not", Args: []c04Dsl{a}} }
func c04DAnd(a, b c04Dsl) c04Dsl     { return c04Dsl{Op: "and", Args: []c04Dsl{a, b}} }
func c04DOr(a, b c04Dsl) c04Dsl      { return c04Dsl{Op: "or", Args: []c04Dsl{a, b}} }
func c04DCond(c, a, b c04Dsl) c04Dsl { return c04Dsl{Op: "cond", Args: []c04Dsl{c, a, b}} }

// c04DslExprs: the expression alphabet. quick: constants, the four atoms (path,
// method, host, one header), negated / != forms, every conjunction and
// disjunction of two different atoms (pairs with the header atom in both orders,
// thorough: all pairs in both orders), startsWith / matches /
// default-value / conditional forms, three nested shapes, query-string
// attributes and four configuration mistakes. thorough: in addition every
// conjunction / disjunction of two items of {atoms, true, false} (all ordered
// pairs), every negated atom, and the nested shapes (x && y) || z,
// x && (y || z), !(x) && y, !(x || y) over all atoms.
func c04DslExprs(thorough bool) []c04Dsl {
	out := []c04Dsl{c04DTrue, c04DFalse}
	out = append(out, c04DAtoms...)
	out = append(out,
		c04Dsl{Op: "ne", Var: "hdr:h", Val: "1"},
		c04DNot(c04DPathA),
		c04DNot(c04DHdr1),
	)
	for i, a := range c04DAtoms {
		for j, b := range c04DAtoms {
			// quick: each unordered pair once, the pairs with the header atom (the
			// one that can be absent, i.e. an evaluation error) in both orders
			if i < j || (i != j && (thorough || i == len(c04DAtoms)-1)) {
				out = append(out, c04DAnd(a, b), c04DOr(a, b))
			}
		}
	}
	out = append(out,
		c04Dsl{Op: "prefix", Var: "path", Val: "/a"},
		c04Dsl{Op: "re", Var: "path", Val: "^/a.+$"},
		c04Dsl{Op: "eqdef", Var: "hdr:h", Val: "1"},
		c04Dsl{Op: "eqdef", Var: "hdr:h", Val: "none"},
		c04DCond(c04DPathA, c04DGet, c04DHdr1),
		c04DOr(c04DAnd(c04DPathA, c04DGet), c04DHdr1),
		c04DAnd(c04DPathA, c04DOr(c04DGet, c04DHdr1)),
		c04DNot(c04DOr(c04DPathA, c04DHdr1)),
		c04Dsl{Op: "eq", Var: "query:x", Val: "1"},
		c04Dsl{Op: "eq", Var: "urlpath", Val: "/a?x=1"},
		c04DRawBad, c04DRawAtt, c04DRawStr, c04DRawInf,
	)
	if thorough {
		items := append([]c04Dsl{c04DTrue, c04DFalse}, c04DAtoms...)
		for i, a := range items {
			for j, b := range items {
				if i >= 2 && j >= 2 && i != j {
					continue // already above
				}
				out = append(out, c04DAnd(a, b), c04DOr(a, b))
			}
		}
		out = append(out, c04DNot(c04DGet), c04DNot(c04DHostA), c04DNot(c04DTrue))
		for _, x := range c04DAtoms {
			for _, y := range c04DAtoms {
				out = append(out, c04DAnd(c04DNot(x), y), c04DNot(c04DOr(x, y)))
				for _, z := range c04DAtoms {
					out = append(out, c04DOr(c04DAnd(x, y), z), c04DAnd(x, c04DOr(y, z)))
				}
			}
		}
	}
	// each expression once (the generated shapes repeat some hand-written ones)
	seen := map[string]bool{}
	uniq := out[:0:0]
	for _, e := range out {
		if !seen[e.Text()] {
			seen[e.Text()] = true
			uniq = append(uniq, e)
		}
	}
	return uniq
}

func c04DslRequests(withQuery bool) []c04Req {
	var out []c04Req
	queries := []string{""}
	if withQuery {
		queries = []string{"", "x=1", "y=2&x=2"}
	}
	for _, p := range []string{"/a", "/ab", "/b"} {
		for _, m := range c04Methods {
			for _, host := range []string{"a.com", "b.com", ""} {
				for _, h := range []map[string]string{nil, {"h": "1"}, {"h": "2"}} {
					for _, qs := range queries {
						out = append(out, c04Req{Host: host, Path: p, Method: m, Headers: h, Query: qs})
					}
				}
			}
		}
	}
	return out
}

// ---------------------------------------------------------------------------
// checking a rule list against the reference; MatchRoute and MatchAllRoutes are
// recovered separately (one may reach a rule the other does not)

func c04LookupOne(rs types.Routers, q c04Req) (one string, panicked string) {
	defer func() {
		if r := recover(); r != nil {
			panicked = fmt.Sprint(r)
		}
	}()
	ctx, h := c04Ctx(q)
	return c04Cluster(ctx, rs.MatchRoute(ctx, h)), ""
}

func c04LookupAll(rs types.Routers, q c04Req) (all []string, panicked string) {
	defer func() {
		if r := recover(); r != nil {
			panicked = fmt.Sprint(r)
		}
	}()
	ctx, h := c04Ctx(q)
	for _, r := range rs.MatchAllRoutes(ctx, h) {
		all = append(all, c04Cluster(ctx, r))
	}
	return all, ""
}

// c04AllVerdict compares a MatchAllRoutes result with the reference verdicts:
// "" or what is wrong.
func c04AllVerdict(rules []c04Rule, verdict []c04Tri, all []string) string {
	last := -1
	seen := map[int]bool{}
	for _, name := range all {
		k := -1
		fmt.Sscanf(name, "r%d", &k)
		if k < 0 || k >= len(rules) {
			return "unknown route " + name
		}
		if k <= last {
			return "not in configuration order"
		}
		last = k
		seen[k] = true
		if verdict[k] == c04No {
			return fmt.Sprintf("contains non-matching rule (%s)", c04RuleClass(rules[k]))
		}
	}
	for k, v := range verdict {
		if v == c04Yes && !seen[k] {
			return fmt.Sprintf("misses matching rule (%s)", c04RuleClass(rules[k]))
		}
	}
	return ""
}

func c04PanicKey(rules []c04Rule, api string) string {
	if c04DslHasRaw(rules, "non-bool") {
		return "route-select: " + api + " panics (rule list contains a dsl expression that is not boolean)"
	}
	return "route-select: " + api + " panics"
}

// c04CheckRoutesX: like c04CheckRoutes for rule lists that may contain dsl /
// regex-search rules. dkeyOf: distinct-key prefix of the list.
func c04CheckRoutesX(p *vreport.Part, c c04RouteCase, reqs []c04Req, dkey string) {
	cfg := c04VHostConfig([][]string{{"*"}}, func(int) []v2.Router {
		var out []v2.Router
		for k, r := range c.Rules {
			out = append(out, c04Router(r, fmt.Sprintf("r%d", k)))
		}
		return out
	})
	lkey := c04RulesKey(c.Rules)
	rs, err, pan := c04NewRouters(cfg)
	if pan != "" || err != nil {
		p.Violation("route-config: valid rule list rejected", fmt.Sprintf("rules [%s]: error %v panic %s", lkey, err, pan), c)
		return
	}
	if c.Req != nil {
		reqs = []c04Req{*c.Req}
	} else {
		p.EvalN(len(reqs) - 1)
	}
	if dkey == "" {
		dkey = lkey
	}
	for _, q := range reqs {
		q := q
		cc := c04RouteCase{Rules: c.Rules, Req: &q}
		adm, verdict := c04RefRoute(c.Rules, q)
		p.Distinct(dkey + "|" + fmt.Sprint(verdict))
		if len(adm) > 1 {
			p.Count("lookups_not_fully_decided_by_statement", 1)
		}
		got, pan := c04LookupOne(rs, q)
		if pan != "" {
			p.Outcome("MatchRoute panics")
			p.Violation(c04PanicKey(c.Rules, "MatchRoute"), fmt.Sprintf("rules [%s] request %s: reference verdicts %v admit %v; panic %s", lkey, q, verdict, adm, pan), cc)
		} else {
			gotIdx := -1
			if got != "" {
				fmt.Sscanf(got, "r%d", &gotIdx)
			}
			p.Outcome(fmt.Sprintf("%d/%d decided=%v", gotIdx, len(c.Rules), len(adm) == 1))
			if p.WantSample() {
				p.Sample(map[string]interface{}{"rules": lkey, "request": q.String(), "verdicts": fmt.Sprint(verdict), "selected": gotIdx})
			}
			if !c04In(adm, gotIdx) {
				p.Violation(c04RouteKey(c.Rules, verdict, adm, gotIdx),
					fmt.Sprintf("rules [%s] request %s: reference verdicts %v admit %v (-1 = no route), router selected %d", lkey, q, verdict, adm, gotIdx), cc)
			}
		}
		all, pan := c04LookupAll(rs, q)
		if pan != "" {
			p.Violation(c04PanicKey(c.Rules, "MatchAllRoutes"), fmt.Sprintf("rules [%s] request %s: reference verdicts %v; panic %s", lkey, q, verdict, pan), cc)
		} else if bad := c04AllVerdict(c.Rules, verdict, all); bad != "" {
			p.Violation("route-select: MatchAllRoutes "+bad,
				fmt.Sprintf("rules [%s] request %s: reference verdicts %v, MatchAllRoutes returned %v", lkey, q, verdict, all), cc)
		}
	}
}

// ---------------------------------------------------------------------------
// part dsl-expressions: one dsl rule (1..3 expressions) followed by a catch-all

func TestVerifC04DslExprs(t *testing.T) {
	c04Quiet()
	p := vreport.Begin("C04", "dsl-expressions", time.Duration(vreport.Pick(3, 20))*time.Minute)
	exprs := c04DslExprs(vreport.Thorough())
	// three-expression rules over a sub-alphabet
	tri := []c04Dsl{c04DTrue, c04DPathA, c04DGet, c04DHdr1, c04DRawBad}
	if vreport.Thorough() {
		tri = append(tri, c04DNot(c04DHdr1), c04DFalse, c04DHostA, c04DOr(c04DPathA, c04DHdr1), c04DRawStr)
	}
	reqs, reqsNoQuery := c04DslRequests(true), c04DslRequests(false)
	catchAll := c04Rule{Kind: "prefix", Pattern: "/"}
	complete := vreport.Run(p,
		func(yield func(c04RouteCase) bool) {
			mk := func(es ...c04Dsl) c04RouteCase {
				return c04RouteCase{Rules: []c04Rule{{Kind: "dsl", Dsl: append([]c04Dsl(nil), es...)}, catchAll}}
			}
			for _, a := range exprs {
				if !yield(mk(a)) {
					return
				}
			}
			for _, a := range exprs {
				for _, b := range exprs {
					if !yield(mk(a, b)) {
						return
					}
				}
			}
			for _, a := range tri {
				for _, b := range tri {
					for _, c := range tri {
						if !yield(mk(a, b, c)) {
							return
						}
					}
				}
			}
		},
		func(p *vreport.Part, c c04RouteCase) {
			rq := reqs
			if es := c.Rules[0].Dsl; len(es) == 2 && !c04DslUsesQuery(es) {
				rq = reqsNoQuery // pairs that do not read the query string are not probed with query strings
			}
			c04CheckRoutesX(p, c, rq, "")
		})
	var names []string
	for _, e := range exprs {
		names = append(names, e.Text())
	}
	p.End(complete,
		fmt.Sprintf("one dsl rule followed by a catch-all prefix rule; the rule's dsl_expressions = every expression, every ordered pair (with repetition) of the %d-expression alphabet and every ordered triple over a %d-expression sub-alphabet; alphabet [%s]; x %d requests (paths [/a /ab /b] x methods %v x Host [a.com b.com unset] x header h [absent 1 2] x query string [none x=1 y=2&x=2]; two-expression rules that do not read the query string: only without query string)", len(exprs), len(tri), strings.Join(names, " ; "), len(reqs), c04Methods),
		"cartesian product; a dsl rule holds iff all its expressions hold; an expression is evaluated by the harness's own evaluator under the plain and the CEL-error reading, decided where they agree; expressions that do not compile, name an unknown attribute, are not boolean or need the request info are enumerated, their verdict is unknown (either outcome admitted), but a lookup must not panic; MatchRoute = first rule that holds, MatchAllRoutes = exactly the rules that hold in order; distinct = (rule, reference verdicts); outcome = position selected / decided")
}

// ---------------------------------------------------------------------------
// part dsl-order: dsl rules before / between / after rules of the other kinds

func c04DslOrderAlphabet(thorough bool) (dsl, other []c04Rule) {
	d := func(es ...c04Dsl) c04Rule { return c04Rule{Kind: "dsl", Dsl: es} }
	dsl = []c04Rule{
		d(c04DTrue),
		d(c04DFalse),
		d(c04DPathA),
		d(c04DHdr1),
		d(c04DAnd(c04DGet, c04DHostA)),
		d(c04DOr(c04DPathA, c04DHdr1)),
		d(c04DPathA, c04DGet),
		d(c04DRawBad),
		d(c04DRawStr),
	}
	other = []c04Rule{
		{Kind: "path", Pattern: "/a"},
		{Kind: "prefix", Pattern: "/"},
		{Kind: "prefix", Pattern: "/a", Headers: []c04Hdr{c04HdrH1}},
		{Kind: "variable", Vars: []c04Var{{Name: types.VarMethod, Value: "POST", Model: "and"}, {Name: types.VarPath, Regex: "^/a.*$"}}},
		{Kind: "rpc", Headers: []c04Hdr{c04HdrH2}},
	}
	if thorough {
		other = append(other, c04Rule{Kind: "regex", Pattern: "^/a.+$"})
		dsl = append(dsl,
			d(c04Dsl{Op: "ne", Var: "hdr:h", Val: "1"}),
			d(c04DGet),
			d(c04DHostA),
			d(c04DNot(c04DPathA)),
			d(c04Dsl{Op: "prefix", Var: "path", Val: "/a"}),
			d(c04DCond(c04DPathA, c04DGet, c04DHdr1)),
			d(c04DHdr1, c04DRawBad),
			d(c04DGet, c04DRawStr),
			d(c04DRawInf),
		)
		other = append(other,
			c04Rule{Kind: "prefix", Pattern: "/", Headers: []c04Hdr{c04HdrGET}},
			c04Rule{Kind: "rpc", Headers: []c04Hdr{c04HdrSvc}},
		)
	}
	return
}

func TestVerifC04DslOrder(t *testing.T) {
	c04Quiet()
	p := vreport.Begin("C04", "dsl-order", time.Duration(vreport.Pick(3, 20))*time.Minute)
	dsl, other := c04DslOrderAlphabet(vreport.Thorough())
	alpha := append(append([]c04Rule(nil), dsl...), other...)
	reqs := c04DslRequests(false)
	complete := vreport.Run(p,
		func(yield func(c04RouteCase) bool) {
			c04GenRuleLists(alpha, 3, func(rs []c04Rule) bool {
				has := false
				for _, r := range rs {
					has = has || r.Kind == "dsl"
				}
				if !has {
					return true // lists without a dsl rule: part route-order
				}
				return yield(c04RouteCase{Rules: rs})
			})
		},
		func(p *vreport.Part, c c04RouteCase) { c04CheckRoutesX(p, c, reqs, "") })
	var names []string
	for _, r := range alpha {
		names = append(names, r.String())
	}
	p.End(complete,
		fmt.Sprintf("every ordered list of <=3 rules (with repetition) over %d dsl rules + %d rules of the other kinds that contains at least one dsl rule [%s] x %d requests (paths [/a /ab /b] x methods %v x Host [a.com b.com unset] x header h [absent 1 2])", len(dsl), len(other), strings.Join(names, " | "), len(reqs), c04Methods),
		"cartesian product (dsl rules before, between and after path/prefix/regex/header/variable rules, with and without a catch-all); oracle and conventions as in dsl-expressions; distinct = (rule list, reference verdicts); outcome = position selected / number of rules")
}
