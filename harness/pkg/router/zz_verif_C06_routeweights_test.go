//go:build verif

package router

// C06 (a): a route's weighted clusters are selected with probability exactly
// weight/total over the random draw; a zero-weight cluster is never selected;
// the distribution does not depend on the order in which the clusters happen to
// be stored (map iteration order).
//
// Seam: the route is built from JSON route configuration through the public
// NewRouteBase; the only unexported thing touched is RouteRuleImplBase.randInstance,
// preset to a *rand.Rand over a scripted rand.Source so that EVERY value of the
// draw is enumerated instead of sampled. The `for … range rri.weightedClusters`
// loop of ClusterName is rewritten by vrewrite (set "router") into a loop over
// vrt.MapOrder(m): the iteration order is a free choice point of the explorer,
// so each execution of vrt.Explore(Bound:-1) is one permutation and all n!
// permutations are executed for every draw.
//
// Oracle (per weight vector, per permutation): #{d in [0,total) : ClusterName()==c} == weight(c).
// Consequences checked under separate finding keys: a zero-weight cluster is
// never selected; the per-cluster counts are the same for every permutation;
// the selected name is always one of the configured weighted clusters; source
// values total+k select what k selects (the draw is taken from exactly [0,total)).

import (
	"context"
	"encoding/json"
	"fmt"
	"math/rand"
	"runtime"
	"sort"
	"strings"
	"testing"
	"time"

	v2 "mosn.io/mosn/pkg/config/v2"
	"mosn.io/mosn/pkg/verifrt/vreport"
	"mosn.io/mosn/pkg/verifrt/vrt"
)

// c06Source is a scripted rand.Source: Int63 always returns v and counts calls.
type c06Source struct {
	v     int64
	calls int
}

func (s *c06Source) Int63() int64 { s.calls++; return s.v }
func (s *c06Source) Seed(int64)   {}

// c06IntnSelfCheck verifies, against the math/rand this binary is linked with,
// that a Source whose Int63 is d<<32 makes Intn(n) return d mod n (one Int63 call).
func c06IntnSelfCheck(n int) error {
	for d := 0; d < 2*n; d++ {
		s := &c06Source{v: int64(d) << 32}
		if got := rand.New(s).Intn(n); got != d%n || s.calls != 1 {
			return fmt.Errorf("math/rand self-check: Source.Int63()=%d<<32 gives Intn(%d)=%d after %d calls, expected %d after 1 call", d, n, got, s.calls, d%n)
		}
	}
	return nil
}

type c06RouteCase struct {
	Weights []uint32 `json:"weights"`         // weight of cluster "c<i>"
	Perms   [][]int  `json:"perms,omitempty"` // replay only: the map orders (explorer choice sequences) to run; nil = all
	Replay  bool     `json:"replay,omitempty"`
	Draw    int      `json:"draw"` // informational: a draw that shows the problem (-1 = whole draw space)
}

func c06Name(i int) string { return fmt.Sprintf("c%d", i) }

const c06Default = "c06-default-cluster"

func c06RouteConfig(w []uint32) (*v2.Router, error) {
	var wc []string
	for i, x := range w {
		wc = append(wc, fmt.Sprintf(`{"cluster":{"name":%q,"weight":%d}}`, c06Name(i), x))
	}
	js := fmt.Sprintf(`{"match":{"prefix":"/"},"route":{"cluster_name":%q,"weighted_clusters":[%s]}}`, c06Default, strings.Join(wc, ","))
	r := &v2.Router{}
	if err := json.Unmarshal([]byte(js), r); err != nil {
		return nil, err
	}
	return r, nil
}

// c06Order decodes an explorer choice sequence (Lehmer code over the sorted
// key list, see vrt.MapOrder) into the iteration order of cluster indices.
func c06Order(n int, choices []int) ([]int, bool) {
	names := make([]string, n)
	for i := range names {
		names[i] = c06Name(i)
	}
	sort.Strings(names)
	idx := func(s string) int { var i int; fmt.Sscanf(s, "c%d", &i); return i }
	rest := append([]string(nil), names...)
	var out []int
	ci := 0
	for len(rest) > 1 {
		if ci >= len(choices) || choices[ci] >= len(rest) {
			return nil, false
		}
		out = append(out, idx(rest[choices[ci]]))
		rest = append(rest[:choices[ci]], rest[choices[ci]+1:]...)
		ci++
	}
	if ci != len(choices) {
		return nil, false
	}
	return append(out, idx(rest[0])), true
}

func c06Fact(n int) int {
	f := 1
	for i := 2; i <= n; i++ {
		f *= i
	}
	return f
}

func c06Vectors() [][]uint32 {
	var out [][]uint32
	seen := map[string]bool{}
	add := func(w ...uint32) {
		t := uint32(0)
		for _, x := range w {
			t += x
		}
		k := fmt.Sprint(w)
		if t == 0 || seen[k] { // total 0: no draw exists (rand.Intn(0) is not defined); not part of the statement
			return
		}
		seen[k] = true
		out = append(out, append([]uint32(nil), w...))
	}
	prod := func(alpha []uint32, n int) {
		w := make([]uint32, n)
		var rec func(i int)
		rec = func(i int) {
			if i == n {
				add(w...)
				return
			}
			for _, a := range alpha {
				w[i] = a
				rec(i + 1)
			}
		}
		rec(0)
	}
	alpha := []uint32{0, 1, 2, 3, 5, 8}
	prod(alpha, 1)
	prod(alpha, 2)
	prod(alpha, 3)
	// named vectors of the design entry: 90/10, 50/50, 1/99, a dominant weight among ones, totals 16 and 17
	add(90, 10)
	add(10, 90)
	add(50, 50)
	add(1, 99)
	add(99, 1)
	add(97, 1, 1)
	add(1, 97, 1)
	add(1, 1, 97)
	add(16)
	add(17)
	add(15, 1)
	add(16, 1)
	add(0, 16)
	add(17, 0)
	add(8, 8, 1)
	add(4, 4, 8)
	add(100)
	add(0, 100, 0)
	// four clusters (24 storage orders), five clusters (120), thorough: six clusters (720)
	prod([]uint32{0, 1, 2, 3, 5}, 4)
	prod([]uint32{0, 1, 2}, 5)
	add(97, 1, 1, 1)
	add(0, 0, 0, 1)
	if vreport.Thorough() {
		prod([]uint32{0, 1, 2, 3, 5, 8, 13}, 3)
		prod([]uint32{0, 1, 2, 3, 5, 8}, 4)
		prod([]uint32{0, 1, 2, 3}, 5)
		prod([]uint32{0, 1, 2}, 6)
		add(128, 128)
		add(255, 1)
		add(256)
		add(1000, 0, 24)
	}
	// shortest vectors and smallest totals first: the first counterexample reported is a minimal one
	tot := func(w []uint32) (t uint32) {
		for _, x := range w {
			t += x
		}
		return
	}
	sort.SliceStable(out, func(i, j int) bool {
		if len(out[i]) != len(out[j]) {
			return len(out[i]) < len(out[j])
		}
		return tot(out[i]) < tot(out[j])
	})
	return out
}

// c06Early is an execution in which ClusterName panicked before it reached the
// map iteration (so the execution has no map order).
type c06Early struct {
	choices []int
	d       int
	msg     string
}

type c06PermResult struct {
	choices []int
	order   []int    // iteration order as cluster indices
	sel     []string // selected name per source value d in [0,2*total)
}

// c06Explore runs ClusterName for source value d under every map order (or, in
// replay, under the listed ones) and stores the selected names.
func c06Explore(cfg *v2.Router, n, total, d int, perms [][]int, replay bool, res map[string]*c06PermResult, problems *[]string, early *[]c06Early, free map[int]string) (execs int, complete bool) {
	var got string
	var panicked interface{}
	var calls int
	body := func() {
		got, panicked, calls = "", nil, 0
		defer func() {
			if r := recover(); r != nil {
				panicked = r
			}
		}()
		rb, err := NewRouteBase(nil, cfg)
		if err != nil {
			panicked = fmt.Sprintf("NewRouteBase: %v", err)
			return
		}
		pr, ok := rb.(*PrefixRouteRuleImpl)
		if !ok {
			panicked = fmt.Sprintf("NewRouteBase returned %T for a prefix route", rb)
			return
		}
		src := &c06Source{v: int64(d) << 32}
		pr.RouteRuleImplBase.randInstance = rand.New(src)
		got = rb.RouteRule().ClusterName(context.Background())
		calls = src.calls
	}
	check := func(r *vrt.Result) {
		execs++
		k := fmt.Sprint(r.Choices)
		if r.Deadlock || r.StepLimit || r.Diverged != "" || len(r.Panics) > 0 {
			*problems = append(*problems, "execution did not complete: "+r.String()+fmt.Sprint(r.Panics))
			return
		}
		if len(r.Choices) == 0 && n >= 2 && panicked == nil {
			// the draw was decided without iterating the cluster map (an early return): the result holds
			// for every map order
			if calls != 1 {
				*problems = append(*problems, fmt.Sprintf("ClusterName consumed %d values of the random source (harness expects exactly one Intn(total))", calls))
			}
			free[d] = got
			return
		}
		pr := res[k]
		if pr == nil {
			order, ok := c06Order(n, r.Choices)
			if !ok && panicked != nil {
				*early = append(*early, c06Early{choices: append([]int{}, r.Choices...), d: d, msg: fmt.Sprint(panicked)})
				return
			}
			if !ok {
				*problems = append(*problems, fmt.Sprintf("choice sequence %v is not a map order of %d keys (unexpected choice points in ClusterName)", r.Choices, n))
				return
			}
			pr = &c06PermResult{choices: append([]int(nil), r.Choices...), order: order, sel: make([]string, 2*total)}
			res[k] = pr
		}
		if panicked != nil {
			pr.sel[d] = fmt.Sprintf("PANIC: %v", panicked)
			return
		}
		if calls != 1 {
			*problems = append(*problems, fmt.Sprintf("ClusterName consumed %d values of the random source (harness expects exactly one Intn(total))", calls))
		}
		pr.sel[d] = got
	}
	complete = true
	if replay {
		for _, pm := range perms {
			st := vrt.Explore(vrt.Options{Replay: true, Prefix: pm, KeepProcs: true, MaxSteps: 1000}, body, check)
			complete = complete && st.Complete
		}
		return
	}
	st := vrt.Explore(vrt.Options{Bound: -1, KeepProcs: true, MaxSteps: 1000}, body, check)
	return execs, st.Complete
}

// known pattern of deviation (see findings/C06.md): in iteration order the
// first cluster has one draw too many, the last positive-weight cluster one too few.
func c06FirstPlusOne(order []int, w []uint32, cnt map[string]int) bool {
	lastPos := -1
	for p, ci := range order {
		if w[ci] > 0 {
			lastPos = p
		}
	}
	if lastPos <= 0 {
		return false
	}
	for p, ci := range order {
		delta := cnt[c06Name(ci)] - int(w[ci])
		want := 0
		if p == 0 {
			want = 1
		} else if p == lastPos {
			want = -1
		}
		if delta != want {
			return false
		}
	}
	return true
}

func c06CheckVector(p *vreport.Part, c c06RouteCase) {
	w := c.Weights
	n := len(w)
	total := 0
	for _, x := range w {
		total += int(x)
	}
	if total == 0 || n == 0 {
		return
	}
	if err := c06IntnSelfCheck(total); err != nil {
		vreport.HarnessError("C06", p.Name, err.Error())
		return
	}
	cfg, err := c06RouteConfig(w)
	if err != nil {
		vreport.HarnessError("C06", p.Name, "route config does not parse: "+err.Error())
		return
	}
	res := map[string]*c06PermResult{}
	free := map[int]string{} // draws decided without a map iteration: valid for every order
	var problems []string
	var early []c06Early
	execs := 0
	for d := 0; d < 2*total; d++ {
		ne := len(early)
		e, complete := c06Explore(cfg, n, total, d, c.Perms, c.Replay, res, &problems, &early, free)
		execs += e
		if !complete {
			problems = append(problems, "exploration incomplete")
		}
		if _, isFree := free[d]; isFree && e == 1 {
			continue
		}
		if !c.Replay && e != c06Fact(n) && len(early) == ne {
			problems = append(problems, fmt.Sprintf("weights %v source value %d: %d executions, expected %d! = %d map orders", w, d, e, n, c06Fact(n)))
		}
	}
	p.EvalN(execs)
	p.AddTraces(execs)
	for _, ep := range early {
		p.Outcome("panic")
		p.Violation("route weighted_clusters: ClusterName panics", fmt.Sprintf("weights %v total %d, source value %d: %s (before the cluster map is iterated)", w, total, ep.d, ep.msg),
			c06RouteCase{Weights: w, Perms: [][]int{ep.choices}, Replay: true, Draw: ep.d})
	}
	if len(early) > 0 && len(problems) == 0 {
		return // no complete set of executions to count over
	}
	if len(free) > 0 {
		p.Count("draws_decided_without_iterating_the_cluster_map", len(free))
		if len(res) == 0 {
			// every draw was order-free: judge them under the identity order
			id := make([]int, n)
			for i := range id {
				id[i] = i
			}
			res["[]"] = &c06PermResult{order: id, sel: make([]string, 2*total)}
		}
		for _, pr := range res {
			for d, g := range free {
				if pr.sel[d] == "" {
					pr.sel[d] = g
				}
			}
		}
	}
	if !c.Replay && len(res) != c06Fact(n) && len(free) == 0 {
		problems = append(problems, fmt.Sprintf("weights %v: %d distinct map orders seen, expected %d", w, len(res), c06Fact(n)))
	}
	if len(problems) > 0 {
		vreport.HarnessError("C06", p.Name, fmt.Sprintf("weights %v: %s", w, problems[0]))
		return
	}
	p.Count("map_orders_executed", len(res))

	keys := make([]string, 0, len(res))
	for k := range res {
		keys = append(keys, k)
	}
	sort.Strings(keys)
	mk := func(pr *c06PermResult, d int) c06RouteCase {
		return c06RouteCase{Weights: w, Perms: [][]int{append([]int{}, pr.choices...)}, Replay: true, Draw: d}
	}
	orderNames := func(pr *c06PermResult) string {
		var s []string
		for _, ci := range pr.order {
			s = append(s, fmt.Sprintf("%s(w=%d)", c06Name(ci), w[ci]))
		}
		return strings.Join(s, ",")
	}
	type permCounts struct {
		pr    *c06PermResult
		cnt   map[string]int
		known bool // deviation has the first+1/last-1 shape
		dev   bool
	}
	var all []permCounts
	for _, k := range keys {
		pr := res[k]
		cnt := map[string]int{}
		posOf := map[string]int{}
		for pos, ci := range pr.order {
			posOf[c06Name(ci)] = pos
		}
		for d := 0; d < 2*total; d++ {
			s := pr.sel[d]
			pos, isCluster := posOf[s]
			if d < total {
				if n >= 2 {
					p.Distinct(fmt.Sprintf("%v|%s|%d", w, k, d))
				} else {
					p.Distinct(fmt.Sprintf("%v|single", w))
				}
			}
			switch {
			case strings.HasPrefix(s, "PANIC: "):
				p.Outcome("panic")
				p.Violation("route weighted_clusters: ClusterName panics", fmt.Sprintf("weights %v total %d, map order [%s], draw %d: %s", w, total, orderNames(pr), d%total, s), mk(pr, d))
				continue
			case !isCluster:
				p.Outcome("not-a-weighted-cluster")
				p.Violation("route weighted_clusters: selected name is not a configured weighted cluster",
					fmt.Sprintf("weights %v total %d, map order [%s], source value %d: ClusterName()=%q (route cluster_name is %q)", w, total, orderNames(pr), d, s, c06Default), mk(pr, d))
				continue
			}
			ci := pr.order[pos]
			if d >= total {
				if s != pr.sel[d-total] {
					p.Violation("route weighted_clusters: draw is not taken from exactly [0,total)",
						fmt.Sprintf("weights %v total %d, map order [%s]: source value %d (Intn(total) = %d) selects %q but source value %d selects %q", w, total, orderNames(pr), d, d-total, s, d-total, pr.sel[d-total]), mk(pr, d))
				}
				continue
			}
			cnt[s]++
			p.Outcome(fmt.Sprintf("pos=%d/%d zero=%v", pos, n, w[ci] == 0))
			if w[ci] == 0 {
				class := "other"
				if pos == 0 && d == 0 {
					class = "first-iterated cluster wins draw 0"
				}
				p.Violation("route weighted_clusters: zero-weight cluster selected ["+class+"]",
					fmt.Sprintf("weights %v total %d, map order [%s], draw %d: ClusterName()=%q whose weight is 0 (expected probability 0/%d)", w, total, orderNames(pr), d, s, total), mk(pr, d))
			}
		}
		if w[pr.order[0]] == 0 {
			p.Count("orders_with_zero_weight_cluster_first", 1)
		}
		pc := permCounts{pr: pr, cnt: cnt}
		var diffs []string
		for i := 0; i < n; i++ {
			if cnt[c06Name(i)] != int(w[i]) {
				pc.dev = true
				diffs = append(diffs, fmt.Sprintf("%s: selected by %d of %d draws, weight %d", c06Name(i), cnt[c06Name(i)], total, w[i]))
			}
		}
		if pc.dev {
			pc.known = c06FirstPlusOne(pr.order, w, cnt)
			class := "other"
			if pc.known {
				class = "first-iterated +1, last positive-weight -1"
			}
			p.Violation("route weighted_clusters: selection count != weight ["+class+"]",
				fmt.Sprintf("weights %v total %d, map order [%s], all %d draws: %s", w, total, orderNames(pr), total, strings.Join(diffs, "; ")), mk(pr, -1))
		}
		all = append(all, pc)
		if p.WantSample() {
			p.Sample(map[string]interface{}{"weights": w, "map_order": pr.order, "choices": pr.choices, "selected_per_draw": pr.sel[:total]})
		}
	}
	// order independence of the distribution
	for i := 1; i < len(all); i++ {
		same := true
		for j := 0; j < n; j++ {
			if all[i].cnt[c06Name(j)] != all[0].cnt[c06Name(j)] {
				same = false
			}
		}
		if same {
			continue
		}
		class := "first-iterated +1, last positive-weight -1"
		for _, pc := range []permCounts{all[0], all[i]} {
			if pc.dev && !pc.known {
				class = "other"
			}
		}
		cc := c06RouteCase{Weights: w, Perms: [][]int{append([]int{}, all[0].pr.choices...), append([]int{}, all[i].pr.choices...)}, Replay: true, Draw: -1}
		p.Violation("route weighted_clusters: selection counts depend on map storage order ["+class+"]",
			fmt.Sprintf("weights %v total %d: map order [%s] gives counts %v, map order [%s] gives counts %v (over the same %d draws)",
				w, total, orderNames(all[0].pr), all[0].cnt, orderNames(all[i].pr), all[i].cnt, total), cc)
		break
	}
}

func TestVerifC06RouteWeights(t *testing.T) {
	p := vreport.Begin("C06", "route-weights", 8*time.Minute)
	old := runtime.GOMAXPROCS(1)
	defer runtime.GOMAXPROCS(old)
	// math/rand self-check on a dense range, before anything relies on the scripted source
	if !vreport.Replaying() {
		for n := 1; n <= 300; n++ {
			if err := c06IntnSelfCheck(n); err != nil {
				vreport.HarnessError("C06", "route-weights", err.Error())
				p.End(false, "self-check failed", "")
				return
			}
		}
		// determinism: the same (weights, map order, draw) replayed twice selects the same cluster
		cfg, _ := c06RouteConfig([]uint32{1, 2, 3})
		for rep := 0; rep < 2; rep++ {
			for _, d := range []int{0, 3, 5} {
				r1, r2 := map[string]*c06PermResult{}, map[string]*c06PermResult{}
				var pb []string
				var el []c06Early
				fr := map[int]string{}
				c06Explore(cfg, 3, 6, d, nil, false, r1, &pb, &el, fr)
				if _, orderFree := fr[d]; orderFree && len(r1) == 0 && len(pb) == 0 && len(el) == 0 {
					continue // this draw is decided without iterating the map: nothing to replay
				}
				for _, pr := range r1 {
					c06Explore(cfg, 3, 6, d, [][]int{pr.choices}, true, r2, &pb, &el, map[int]string{})
				}
				for k, pr := range r1 {
					if r2[k] == nil || r2[k].sel[d] != pr.sel[d] || fmt.Sprint(r2[k].order) != fmt.Sprint(pr.order) {
						pb = append(pb, fmt.Sprintf("replay of map order %v draw %d differs", pr.choices, d))
					}
				}
				if len(r1) != 6 || len(pb) > 0 || len(el) > 0 {
					vreport.HarnessError("C06", "route-weights", fmt.Sprintf("determinism self-check failed: orders=%d problems=%v", len(r1), pb))
					p.End(false, "self-check failed", "")
					return
				}
			}
		}
	}
	vecs := c06Vectors()
	maxTotal, maxN := 0, 0
	complete := vreport.Run(p,
		func(yield func(c06RouteCase) bool) {
			for _, w := range vecs {
				t := 0
				for _, x := range w {
					t += int(x)
				}
				if t > maxTotal {
					maxTotal = t
				}
				if len(w) > maxN {
					maxN = len(w)
				}
				if p.Expired() || !yield(c06RouteCase{Weights: w, Draw: -1}) {
					return
				}
			}
		},
		c06CheckVector)
	if p.Expired() {
		complete = false
	}
	p.Note("weight_vectors", len(vecs))
	p.End(complete,
		fmt.Sprintf("%d weight vectors: all vectors of 1..3 clusters over {0,1,2,3,5,8} with total>=1, %s, named vectors (90/10, 50/50, 1/99, 97 among ones, totals 16/17/100); every draw in [0,total) plus the wrap values [total,2*total); every map iteration order (up to %d! per vector); largest total %d",
			len(vecs), map[bool]string{false: "4 clusters over {0,1,2,3,5}, 5 clusters over {0,1,2}", true: "3 clusters over {0,1,2,3,5,8,13}, 4 over {0,1,2,3,5,8}, 5 over {0,1,2,3}, 6 over {0,1,2}, totals 256 and 1024"}[vreport.Thorough()], maxN, maxTotal),
		"cartesian product weight vector x source value x map order (vrt.Explore Bound=-1 over the MapOrder choice points of the real ClusterName, route built by NewRouteBase from JSON config); an evaluation is one execution of ClusterName; distinct = (weights, map order, draw) with >=2 clusters (single-cluster vectors count once); outcome = position of the selected cluster in iteration order and whether its weight is 0. Oracle per map order: #draws selecting c == weight(c); counts equal across orders; total 0 is not enumerated (no draw exists, the statement is silent)")
}
