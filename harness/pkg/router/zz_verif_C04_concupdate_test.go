//go:build verif

package router

import (
	"fmt"
	"os"
	"strings"
	"testing"
	"time"

	"mosn.io/api"
	v2 "mosn.io/mosn/pkg/config/v2"
	"mosn.io/mosn/pkg/protocol"
	"mosn.io/mosn/pkg/types"
	"mosn.io/mosn/pkg/verifrt/vreport"
	"mosn.io/mosn/pkg/verifrt/vrt"
)

// C04 part 4b (schedules): lookups concurrent with the route-level operations
// of the RouterManager on the SAME virtual host.
//
// One updater thread runs a program against a fresh routersManagerImpl:
//
//	replace: RemoveAllRoutes(name, domain); AddRoute(name, domain, new[0]); ... AddRoute(new[k-1])
//	append:  AddRoute(new[0]); ... AddRoute(new[k-1])
//	swap:    AddOrUpdateRouters(whole configuration with the new list)
//
// while 1-2 lookup threads do what the proxy does - routersWrapper.GetRouters()
// followed by MatchRoute or MatchAllRoutes - on the virtual host being updated.
// pkg/router is instrumented: every lock operation is a scheduling point. In
// addition the request's header map (caller-supplied, a harness type here) is a
// scheduling point in Get: every rule of the alphabets carries a header matcher
// (`y: 1`, present in every request), so there is a scheduling point INSIDE every
// rule evaluation - a lookup that walked the rule list without holding the
// virtual host's lock could be interleaved with the updater between two rules.
//
// Rule lists: old and new lists over {prefix /a, prefix /b, prefix /, prefix / +
// header gate}. A case (old, new, request, API) is kept for the replace program
// when a torn read would be OBSERVABLE: some position-wise mixture of the old
// and the new list gives the request an answer that no configuration the
// program passes through gives (e.g. old [gate, /a->o1], new [/ ->n0, /a->n1],
// request /a: o1 | none | n0 are possible, the mixture [gate, /a->n1] says n1).
// append / swap programs: all pairs of a small sub-alphabet.
//
// Oracle (interval / linearizability style): the updater counts operations
// started and completed; a lookup that began when d operations were complete
// and ended when s operations had started must return the reference result of
// ONE of the configurations d..s (configuration k = the list after k
// operations) - never an answer none of them gives; MatchAllRoutes exactly one
// such configuration's ordered list. After all threads finished a fresh lookup
// must equal the reference under the final configuration.

type c04CUReader struct {
	Req c04Req `json:"req"`
	All bool   `json:"all"`
}

type c04CUCase struct {
	Program string        `json:"program"` // replace | append | swap
	Old     []c04Rule     `json:"old"`
	New     []c04Rule     `json:"new"`
	Readers []c04CUReader `json:"readers"`
	Bound   int           `json:"bound"`
	Choices []int         `json:"choices,omitempty"`
}

type c04CURoute struct {
	r c04Rule
	c string
}

const c04CUName = "verif_c04_concupdate"

var c04CUHdrY = c04Hdr{Name: "y", Value: "1"}

func c04CUAlphabet() []c04Rule {
	return []c04Rule{
		{Kind: "prefix", Pattern: "/a", Headers: []c04Hdr{c04CUHdrY}},
		{Kind: "prefix", Pattern: "/b", Headers: []c04Hdr{c04CUHdrY}},
		{Kind: "prefix", Pattern: "/", Headers: []c04Hdr{c04CUHdrY}},
		{Kind: "prefix", Pattern: "/", Headers: []c04Hdr{c04CUHdrY, {Name: "gate", Value: "1"}}},
	}
}

func c04CURequests() []c04Req {
	return []c04Req{
		{Host: "a.com", Path: "/a", Method: "GET", Headers: map[string]string{"y": "1"}},
		{Host: "a.com", Path: "/b", Method: "GET", Headers: map[string]string{"y": "1"}},
		{Host: "a.com", Path: "/a", Method: "GET", Headers: map[string]string{"y": "1", "gate": "1"}},
	}
}

func c04CUNamed(rules []c04Rule, prefix string) []c04CURoute {
	var out []c04CURoute
	for i, r := range rules {
		out = append(out, c04CURoute{r, fmt.Sprintf("%s%d", prefix, i)})
	}
	return out
}

// c04CUConfigs: configuration k = the virtual host's list after k operations.
func c04CUConfigs(c c04CUCase) [][]c04CURoute {
	old, nw := c04CUNamed(c.Old, "o"), c04CUNamed(c.New, "n")
	out := [][]c04CURoute{old}
	switch c.Program {
	case "replace":
		out = append(out, nil)
		for k := 1; k <= len(nw); k++ {
			out = append(out, append([]c04CURoute(nil), nw[:k]...))
		}
	case "append":
		for k := 1; k <= len(nw); k++ {
			out = append(out, append(append([]c04CURoute(nil), old...), nw[:k]...))
		}
	case "swap":
		out = append(out, nw)
	}
	return out
}

// c04CURef: reference answer of one lookup under one list (text).
func c04CURef(list []c04CURoute, q c04Req, all bool) string {
	var names []string
	for _, e := range list {
		switch c04RefRule(e.r, q) {
		case c04Yes:
			if !all {
				return e.c
			}
			names = append(names, e.c)
		case c04Unknown:
			panic("C04 harness: undecided rule in the concurrent alphabet: " + e.r.String())
		}
	}
	if !all {
		return ""
	}
	return fmt.Sprint(names)
}

// c04CUObservable: would a position-wise mixture of old and new give q an
// answer that no configuration of the replace program gives?
func c04CUObservable(c c04CUCase, q c04Req, all bool) bool {
	valid := map[string]bool{}
	for _, cfg := range c04CUConfigs(c) {
		valid[c04CURef(cfg, q, all)] = true
	}
	old, nw := c04CUNamed(c.Old, "o"), c04CUNamed(c.New, "n")
	for mask := 0; mask < 1<<len(old); mask++ {
		mixed := append([]c04CURoute(nil), old...)
		for p := range mixed {
			if mask&(1<<p) != 0 && p < len(nw) {
				mixed[p] = nw[p]
			}
		}
		if !valid[c04CURef(mixed, q, all)] {
			return true
		}
	}
	return false
}

// c04YieldHeader: the request's header map; Get is a scheduling point.
type c04YieldHeader struct{ protocol.CommonHeader }

func (h c04YieldHeader) Get(key string) (string, bool) {
	vrt.Yield()
	return h.CommonHeader.Get(key)
}

func (h c04YieldHeader) Clone() api.HeaderMap {
	return c04YieldHeader{h.CommonHeader.Clone().(protocol.CommonHeader)}
}

func c04CUVHostCfg(list []c04CURoute) *v2.RouterConfiguration {
	cfg := c04VHostConfig([][]string{{"a.com"}, {"*"}}, func(i int) []v2.Router {
		if i == 1 {
			return []v2.Router{c04Router(c04Rule{Kind: "prefix", Pattern: "/"}, "vh1")}
		}
		var out []v2.Router
		for _, e := range list {
			out = append(out, c04Router(e.r, e.c))
		}
		return out
	})
	cfg.RouterConfigName = c04CUName
	return cfg
}

func c04CULookup(w types.RouterWrapper, q c04Req, all bool) (res string, panicked string) {
	defer func() {
		if r := recover(); r != nil {
			if vrt.TearingDown() {
				panic(r)
			}
			panicked = fmt.Sprint(r)
		}
	}()
	ctx, h := c04Ctx(q)
	yh := c04YieldHeader{h.(protocol.CommonHeader)}
	rs := w.GetRouters()
	if !all {
		return c04Cluster(ctx, rs.MatchRoute(ctx, yh)), ""
	}
	var names []string
	for _, r := range rs.MatchAllRoutes(ctx, yh) {
		names = append(names, c04Cluster(ctx, r))
	}
	return fmt.Sprint(names), ""
}

type c04CUObs struct {
	res    []string
	d0, s1 []int // per reader: operations complete at lookup start, operations started at lookup end
	pan    []string
	final  string
}

var c04CUFinalReq = c04Req{Host: "a.com", Path: "/a", Method: "GET", Headers: map[string]string{"y": "1", "gate": "1"}}

func c04CUBody(c c04CUCase, obs *c04CUObs) {
	rm := &routersManagerImpl{}
	old, nw := c04CUNamed(c.Old, "o"), c04CUNamed(c.New, "n")
	if err := rm.AddOrUpdateRouters(c04CUVHostCfg(old)); err != nil {
		obs.pan = append(obs.pan, "initial configuration rejected: "+err.Error())
		return
	}
	w := rm.GetRouterWrapperByName(c04CUName)
	n := len(c.Readers)
	obs.res, obs.d0, obs.s1 = make([]string, n), make([]int, n), make([]int, n)
	started, done, fin := 0, 0, 0
	op := func(f func() error) {
		started++
		if err := f(); err != nil {
			obs.pan = append(obs.pan, "update failed: "+err.Error())
		}
		done++
	}
	vrt.GoNamed("updater", func() {
		switch c.Program {
		case "replace", "append":
			if c.Program == "replace" {
				op(func() error { return rm.RemoveAllRoutes(c04CUName, "a.com") })
			}
			for _, e := range nw {
				r := c04Router(e.r, e.c)
				op(func() error { return rm.AddRoute(c04CUName, "a.com", &r) })
			}
		case "swap":
			op(func() error { return rm.AddOrUpdateRouters(c04CUVHostCfg(nw)) })
		}
		fin++
	})
	for i := range c.Readers {
		i := i
		vrt.GoNamed(fmt.Sprintf("lookup%d", i), func() {
			obs.d0[i] = done
			res, pan := c04CULookup(w, c.Readers[i].Req, c.Readers[i].All)
			obs.s1[i] = started
			obs.res[i] = res
			if pan != "" {
				obs.pan = append(obs.pan, pan)
			}
			fin++
		})
	}
	vrt.WaitUntil("updater and lookups done", func() bool { return fin == 1+n })
	res, pan := c04CULookup(w, c04CUFinalReq, true)
	obs.final = res
	if pan != "" {
		obs.pan = append(obs.pan, pan)
	}
}

func c04CULists(alpha []c04Rule, minLen, maxLen int) [][]c04Rule {
	var out [][]c04Rule
	c04GenRuleLists(alpha, maxLen, func(rs []c04Rule) bool {
		if len(rs) >= minLen {
			out = append(out, rs)
		}
		return true
	})
	return out
}

func c04CUCaseKey(c c04CUCase) string {
	var rd []string
	for _, r := range c.Readers {
		a := "one"
		if r.All {
			a = "all"
		}
		rd = append(rd, a+" "+r.Req.String())
	}
	return fmt.Sprintf("%s [%s] -> [%s] | %s", c.Program, c04RulesKey(c.Old), c04RulesKey(c.New), strings.Join(rd, " ; "))
}

// c04CUProp: the property the part reports under. C12 ("requests concurrent with an update are handled
// entirely by the old or entirely by the new configuration") runs the same exploration through
// zz_verif_C12_routeupdates_test.go (unit route-update-schedules of C12, "also": ["C04"]).
var c04CUProp = "C04"

func TestVerifC04ConcurrentRouteUpdates(t *testing.T) { c04CUMain(t) }

func c04CUMain(t *testing.T) {
	c04Quiet()
	p := vreport.Begin(c04CUProp, "concurrent-route-updates", time.Duration(vreport.Pick(4, 25))*time.Minute)
	var rc c04CUCase
	if vreport.Replaying() {
		if vreport.ReplayFor(c04CUProp, "concurrent-route-updates", &rc) {
			c04CURun(p, rc, true, 0)
			p.End(true, "replay", "replay of one recorded schedule")
		}
		return
	}
	maxExecs := vreport.Pick(20000, 200000) // deterministic cap per case
	alpha := c04CUAlphabet()
	reqs := c04CURequests()
	// observable (old, new, request, API) combinations of the replace program
	observable := func(oldMin, oldMax, newMin, newMax int) (out []c04CUCase) {
		for _, o := range c04CULists(alpha, oldMin, oldMax) {
			for _, n := range c04CULists(alpha, newMin, newMax) {
				for _, q := range reqs {
					for _, all := range []bool{false, true} {
						c := c04CUCase{Program: "replace", Old: o, New: n, Readers: []c04CUReader{{q, all}}, Bound: 2}
						if c04CUObservable(c, q, all) {
							out = append(out, c)
						}
					}
				}
			}
		}
		return
	}
	strided := func(in []c04CUCase, stride, bound int) (out []c04CUCase) {
		for i := stride - 1; i < len(in); i += stride {
			c := in[i]
			c.Bound = bound
			out = append(out, c)
		}
		return
	}
	obs22 := observable(2, 2, 2, 2)
	var cases []c04CUCase
	var sets []string
	add := func(what string, cs []c04CUCase) {
		sets = append(sets, fmt.Sprintf("%s: %d cases", what, len(cs)))
		cases = append(cases, cs...)
	}
	if !vreport.Thorough() {
		add(fmt.Sprintf("replace program, old and new list of length 2, every 5th of the %d observable combinations, <=2 preemptions", len(obs22)), strided(obs22, 5, 2))
	} else {
		add(fmt.Sprintf("replace program, old and new list of length 2, all %d observable combinations, <=2 preemptions", len(obs22)), strided(obs22, 1, 2))
		add("the same, every 3rd combination, <=3 preemptions", strided(obs22, 3, 3))
		obsLong := observable(3, 3, 1, 2)
		add(fmt.Sprintf("replace program, old list of length 3, new list of length 1..2, every 5th of the %d observable combinations, <=2 preemptions", len(obsLong)), strided(obsLong, 5, 2))
		obsShort := observable(1, 2, 1, 1)
		add(fmt.Sprintf("replace program, old list of length 1..2, new list of length 1, all %d observable combinations, <=2 preemptions", len(obsShort)), strided(obsShort, 1, 2))
	}
	// two lookup threads (MatchRoute + MatchAllRoutes of the same request)
	var two []c04CUCase
	for _, c := range strided(obs22, vreport.Pick(48, 12), 2) {
		c.Readers = []c04CUReader{{c.Readers[0].Req, false}, {c.Readers[0].Req, true}}
		two = append(two, c)
	}
	add("replace program with two lookup threads (MatchRoute and MatchAllRoutes of one request), <=2 preemptions", two)
	// append / swap programs: every pair over a sub-alphabet
	sub := []c04Rule{alpha[0], alpha[2], alpha[3]}
	subLists := c04CULists(sub, 1, vreport.Pick(1, 2))
	var other []c04CUCase
	for _, prog := range []string{"append", "swap"} {
		for _, o := range subLists {
			for _, n := range subLists {
				for _, all := range []bool{false, true} {
					other = append(other, c04CUCase{Program: prog, Old: o, New: n, Readers: []c04CUReader{{reqs[0], all}}, Bound: vreport.Pick(2, 3)})
				}
			}
		}
	}
	add(fmt.Sprintf("append (AddRoute per new rule) and swap (AddOrUpdateRouters) programs, every pair of lists of length 1..%d over 3 rules x {MatchRoute, MatchAllRoutes}, <=%d preemptions", vreport.Pick(1, 2), vreport.Pick(2, 3)), other)
	complete := true
	for _, c := range cases {
		if p.Expired() {
			complete = false
			break
		}
		if !c04CURun(p, c, false, maxExecs) {
			complete = false
		}
	}
	var names []string
	for _, r := range alpha {
		names = append(names, r.String())
	}
	p.End(complete,
		fmt.Sprintf("fresh RouterManager, router {a.com, *}; updater thread x 1-2 lookup threads (GetRouters + MatchRoute|MatchAllRoutes on a.com); rules [%s], 3 requests; %d cases = %s; every schedule within the preemption bound at the lock operations of pkg/router and at the header map's Get (inside every rule evaluation); at most %d executions per case",
			strings.Join(names, " | "), len(cases), strings.Join(sets, "; "), maxExecs),
		"stateless DFS over schedules; a lookup that started when d update operations were complete and ended when s had started must return the reference answer of one of the configurations d..s (configuration k = list after k operations), MatchAllRoutes that configuration's ordered match list; the lookup after all threads the reference of the final configuration; observable = some position-wise mixture of old and new list answers the request differently from every configuration of the program; distinct = (case, observed results); outcome = (program, which configuration index the answer is consistent with)")
}

func c04CURun(p *vreport.Part, c c04CUCase, replay bool, maxExecs int) bool {
	if len(c.Readers) == 0 || len(c.Old) == 0 {
		return true
	}
	cfgs := c04CUConfigs(c)
	finalAdm := c04CURef(cfgs[len(cfgs)-1], c04CUFinalReq, true)
	var obs c04CUObs
	opts := vrt.Options{Bound: c.Bound, MaxSteps: 20000, MaxExecs: maxExecs}
	if replay {
		opts.Replay = true
		opts.Prefix = c.Choices
	}
	ckey := c04CUCaseKey(c)
	st := vrt.Explore(opts, func() {
		obs = c04CUObs{}
		c04CUBody(c, &obs)
	}, func(r *vrt.Result) {
		p.Eval()
		cc := c
		cc.Choices = r.Choices
		p.Distinct(ckey + "|" + fmt.Sprint(obs.res))
		if r.Deadlock || len(r.Panics) > 0 || r.StepLimit || r.Diverged != "" {
			p.Outcome(c.Program + ": did not complete")
			p.Violation("concurrent-update: execution did not complete (deadlock/panic of an update concurrent with lookups, program "+c.Program+")", r.String()+fmt.Sprint(r.Panics), cc)
			return
		}
		if len(obs.pan) > 0 {
			p.Outcome(c.Program + ": panic/error")
			p.Violation("concurrent-update: lookup panics or update fails while the virtual host is updated (program "+c.Program+")", fmt.Sprintf("%s schedule %v: %v", ckey, r.Choices, obs.pan), cc)
			return
		}
		if p.WantSample() {
			p.Sample(map[string]interface{}{"case": ckey, "schedule": r.Choices, "results": obs.res, "ops_done_at_start": obs.d0, "ops_started_at_end": obs.s1})
		}
		for i, rd := range c.Readers {
			lo, hi := obs.d0[i], obs.s1[i]
			if hi >= len(cfgs) {
				hi = len(cfgs) - 1
			}
			hit := -1
			var adm []string
			for k := lo; k <= hi; k++ {
				want := c04CURef(cfgs[k], rd.Req, rd.All)
				adm = append(adm, want)
				if want == obs.res[i] && hit < 0 {
					hit = k
				}
			}
			p.Outcome(fmt.Sprintf("%s: answer of configuration %d (window %d..%d)", c.Program, hit, lo, hi))
			if hit >= 0 {
				continue
			}
			api := "MatchRoute"
			if rd.All {
				api = "MatchAllRoutes"
			}
			anywhere := false
			for _, cfg := range cfgs {
				anywhere = anywhere || c04CURef(cfg, rd.Req, rd.All) == obs.res[i]
			}
			what := "answers from a mixture of rule lists: no configuration the program passes through gives this answer"
			if anywhere {
				what = "answers with a configuration that did not exist during the lookup"
			}
			p.Violation(fmt.Sprintf("concurrent-update: %s %s (program %s)", api, what, c.Program),
				fmt.Sprintf("%s, lookup %d, schedule %v: got %q; configurations %d..%d that existed during the lookup admit %q", ckey, i, r.Choices, obs.res[i], lo, hi, adm), cc)
		}
		if obs.final != finalAdm {
			p.Violation("concurrent-update: lookup after all updates differs from the reference for the final configuration (program "+c.Program+")",
				fmt.Sprintf("%s, schedule %v: final MatchAllRoutes got %q, final configuration admits %q", ckey, r.Choices, obs.final, finalAdm), cc)
		}
	})
	p.AddTraces(st.Executions)
	if os.Getenv("VERIF_DEBUG") != "" {
		fmt.Printf("case %s: execs=%d maxdepth=%d points=%d complete=%v\n", ckey, st.Executions, st.MaxDepth, st.Points, st.Complete)
	}
	return st.Complete
}
