//go:build verif

package router

import (
	"fmt"
	"strings"
	"testing"
	"time"

	"mosn.io/mosn/pkg/verifrt/vreport"
)

// C17 router seam, part 2: request and response header mutations at the three
// levels.
//
// For one key, each of route / virtual host / router configuration carries one
// of {nothing, add append=true, add append=false, remove} (4^3), the message
// carries the key not at all, once, or (HTTP/1 only) on two header lines, and a
// second, unrelated header that nothing is configured for. The route is
// matched in each of the seven ways; the message is an HTTP/1 header object or
// a protocol.CommonHeader map.

type c17HeaderCase struct {
	Dir     string    `json:"dir"` // "request" | "response"
	Kind    string    `json:"kind"`
	Carrier string    `json:"carrier"`
	KeyCase string    `json:"key_case"` // "lower": configured as x-k; "mixed": configured as X-K (message always carries x-k)
	Muts    [3]c17Mut `json:"muts"`
	Initial []string  `json:"initial"`
}

var c17Ops = []string{"", "append", "overwrite", "remove"}
var c17LevelNames = [3]string{"route", "virtual host", "router"}
var c17LevelValues = [3]string{"r", "v", "g"}

func c17MutsString(m [3]c17Mut) string {
	return "route:" + m[0].String() + " vhost:" + m[1].String() + " router:" + m[2].String()
}

func c17GenHeaderCases(dir string, yield func(c17HeaderCase) bool) {
	for _, kind := range c17Kinds {
		for _, carrier := range []string{"http1", "common"} {
			for _, keyCase := range []string{"lower", "mixed"} {
				key := "x-k"
				if keyCase == "mixed" {
					key = "X-K"
				}
				initials := [][]string{nil, {"0"}}
				if carrier == "http1" {
					initials = append(initials, []string{"0a", "0b"})
				}
				for _, ini := range initials {
					for _, o0 := range c17Ops {
						for _, o1 := range c17Ops {
							for _, o2 := range c17Ops {
								var muts [3]c17Mut
								for l, op := range []string{o0, o1, o2} {
									if op != "" {
										muts[l] = c17Mut{Op: op, Key: key}
										if op != "remove" {
											muts[l].Value = c17LevelValues[l]
										}
									}
								}
								if !yield(c17HeaderCase{Dir: dir, Kind: kind, Carrier: carrier, KeyCase: keyCase, Muts: muts, Initial: ini}) {
									return
								}
							}
						}
					}
				}
			}
		}
	}
}

const c17HeaderBound = "route kinds x carrier {http1 header object, protocol.CommonHeader} x configured key spelling {x-k, X-K} x message carries x-k {not, once, twice (http1 only)} x (route, virtual host, router) each in {none, add append=true, add append=false, remove} (4^3); the message also carries x-other, for which nothing is configured"

const c17HeaderRule = "cartesian product. Real: json -> NewRouters -> MatchRoute -> RouteRule().Finalize{Request,Response}Headers as the proxy calls them (request: then FillRequestHeadersFromCtxVar for http1). Reference: the list of values of the key, transformed by the route level, then the virtual-host level, then the router level (append adds after the existing values, overwrite replaces them all, remove deletes them all). Compared: the values the message carries for the key afterwards, flattened with ',' (so 'joined into one line' and 'a further line' are the same), exactly when the message carried the key at most once, as a multiset when it carried it on two lines (the statement does not order an appended value against a second line); x-other must be untouched. NOT compared (statement silent on header-name case): key configured as X-K on the case-sensitive CommonHeader carrier. distinct = (direction, route kind, carrier, key spelling, initial values, the three mutations); outcome = resulting value list"

func TestVerifC17RequestHeaders(t *testing.T) {
	c17Quiet()
	p := vreport.Begin("C17", "router-request-headers", 3*time.Minute)
	complete := vreport.Run(p, func(yield func(c17HeaderCase) bool) { c17GenHeaderCases("request", yield) }, c17CheckHeaders)
	p.End(complete, c17HeaderBound, c17HeaderRule)
}

func TestVerifC17ResponseHeaders(t *testing.T) {
	c17Quiet()
	p := vreport.Begin("C17", "router-response-headers", 3*time.Minute)
	complete := vreport.Run(p, func(yield func(c17HeaderCase) bool) { c17GenHeaderCases("response", yield) }, c17CheckHeaders)
	p.End(complete, c17HeaderBound, c17HeaderRule)
}

// c17RefHeaderFirstLineOnly is a WRONG model used only to name a deviation:
// additions rewrite the first line that carries the key and leave further
// lines alone.
func c17RefHeaderFirstLineOnly(initial []string, muts [3]c17Mut) []string {
	vals := append([]string(nil), initial...)
	for _, m := range muts {
		switch m.Op {
		case "append":
			if len(vals) > 0 {
				vals[0] = vals[0] + "," + m.Value
			} else {
				vals = []string{m.Value}
			}
		case "overwrite":
			if len(vals) > 0 {
				vals[0] = m.Value
			} else {
				vals = []string{m.Value}
			}
		case "remove":
			vals = nil
		}
	}
	return vals
}

func c17FlatSet(v []string) string { _, s := c17Flat(v); return s }

// c17Diagnose names the deviation if it coincides with a simple wrong model.
func c17Diagnose(c c17HeaderCase, got []string) string {
	flat := func(v []string) string { s, _ := c17Flat(v); return s }
	g := flat(got)
	if g == flat(c.Initial) {
		return "configured mutations not applied (header unchanged)"
	}
	rev := [3]c17Mut{c.Muts[2], c.Muts[1], c.Muts[0]}
	if g == flat(c17RefHeader(c.Initial, rev)) {
		return "result equals router -> virtual host -> route order (levels applied in reverse)"
	}
	for _, perm := range [][3]int{{0, 2, 1}, {1, 0, 2}, {1, 2, 0}, {2, 0, 1}} {
		if g == flat(c17RefHeader(c.Initial, [3]c17Mut{c.Muts[perm[0]], c.Muts[perm[1]], c.Muts[perm[2]]})) {
			return fmt.Sprintf("result equals the level order %s -> %s -> %s", c17LevelNames[perm[0]], c17LevelNames[perm[1]], c17LevelNames[perm[2]])
		}
	}
	swap := func(from, to string) [3]c17Mut {
		m := c.Muts
		for i := range m {
			if m[i].Op == from {
				m[i].Op = to
			}
		}
		return m
	}
	if g == flat(c17RefHeader(c.Initial, swap("overwrite", "append"))) {
		return "append=false behaves as append"
	}
	if g == flat(c17RefHeader(c.Initial, swap("append", "overwrite"))) {
		return "append=true behaves as overwrite"
	}
	for l := 0; l < 3; l++ {
		m := c.Muts
		if m[l].Op == "" {
			continue
		}
		m[l] = c17Mut{}
		if g == flat(c17RefHeader(c.Initial, m)) {
			return "the " + c17LevelNames[l] + "-level mutation is not applied"
		}
	}
	return "resulting values differ from route -> virtual host -> router application"
}

func c17CheckHeaders(p *vreport.Part, c c17HeaderCase) {
	part := "router-" + c.Dir + "-headers"
	conf := c17Conf{Kind: c.Kind}
	if c.Dir == "request" {
		conf.Req = c.Muts
	} else {
		conf.Resp = c.Muts
	}
	text := c17ConfigJSON(conf)
	rs, err, pan := c17Build(text)
	if pan != "" || err != nil {
		p.Violation(c.Dir+"-headers: valid configuration rejected ("+c17KindClass(c.Kind)+")", fmt.Sprintf("config %s: error %v panic %s", text, err, pan), c)
		return
	}
	var msgHdrs [][2]string
	for _, v := range c.Initial {
		msgHdrs = append(msgHdrs, [2]string{"x-k", v})
	}
	msgHdrs = append(msgHdrs, [2]string{"x-other", "o"})
	q := c17Req{Carrier: c.Carrier, Host: "a.com", Path: "/a"}
	if c.Dir == "request" {
		q.Headers = msgHdrs
	}
	d, err := c17Receive(q)
	if err != nil {
		vreport.HarnessError("C17", part, "cannot parse harness request: "+err.Error())
		return
	}
	route, pan := c17Route(rs, d)
	if pan != "" || route == nil {
		p.Violation("setup: request not matched by its route ("+c17KindClass(c.Kind)+")", fmt.Sprintf("config %s request %s: route %v panic %s", text, q, route, pan), c)
		return
	}
	var after map[string][]string
	if c.Dir == "request" {
		if pan := c17FinalizeRequest(route, d); pan != "" {
			p.Violation("request-headers: FinalizeRequestHeaders panics ("+c17KindClass(c.Kind)+", "+c.Carrier+")", fmt.Sprintf("config %s request %s: %s", text, q, pan), c)
			return
		}
		after = c17Send(d).Headers
	} else {
		// the request passes through first, as in the proxy
		if pan := c17FinalizeRequest(route, d); pan != "" {
			p.Violation("request-headers: FinalizeRequestHeaders panics ("+c17KindClass(c.Kind)+", "+c.Carrier+")", fmt.Sprintf("config %s request %s: %s", text, q, pan), c)
			return
		}
		rh, err := c17Response(c.Carrier, msgHdrs)
		if err != nil {
			vreport.HarnessError("C17", part, "cannot parse harness response: "+err.Error())
			return
		}
		if pan := c17FinalizeResponse(route, d.ctx, rh); pan != "" {
			p.Violation("response-headers: FinalizeResponseHeaders panics ("+c17KindClass(c.Kind)+", "+c.Carrier+")", fmt.Sprintf("config %s: %s", text, pan), c)
			return
		}
		after = c17HeaderValues(rh)
	}
	got := after["x-k"]
	want := c17RefHeader(c.Initial, c.Muts)
	gotFlat, gotSet := c17Flat(got)
	wantFlat, wantSet := c17Flat(want)
	compared := !(c.Carrier == "common" && c.KeyCase == "mixed")
	p.Distinct(fmt.Sprintf("%s|%s|%s|%s|%v|%s", c.Dir, c.Kind, c.Carrier, c.KeyCase, c.Initial, c17MutsString(c.Muts)))
	p.Outcome(fmt.Sprintf("%d:%s", len(got), gotFlat))
	if !compared {
		p.Count("not_compared(header-name case on a case-sensitive carrier)", 1)
	}
	if p.WantSample() {
		p.Sample(map[string]interface{}{"dir": c.Dir, "kind": c.Kind, "carrier": c.Carrier, "configured_key": c.KeyCase, "initial": c.Initial, "mutations": c17MutsString(c.Muts), "result": got, "reference": want, "compared": compared})
	}
	if o := strings.Join(after["x-other"], ","); o != "o" {
		p.Violation(fmt.Sprintf("%s-headers: route kind %s, %s: header without configured mutation changed", c.Dir, c17KindClass(c.Kind), c.Carrier),
			fmt.Sprintf("config %s, message headers %v: x-other expected [o], got %v", text, msgHdrs, after["x-other"]), c)
	}
	if !compared {
		return
	}
	bad := false
	if len(c.Initial) < 2 {
		bad = gotFlat != wantFlat || (len(want) == 0) != (len(got) == 0)
	} else {
		bad = gotSet != wantSet || (len(want) == 0) != (len(got) == 0)
	}
	if !bad {
		return
	}
	what := c17Diagnose(c, got)
	if len(c.Initial) == 2 && strings.HasPrefix(what, "resulting values differ") {
		// the carrier's Set touching only the first of several lines is a
		// property of the header object, not of the way the route was matched
		if gotSet == c17FlatSet(c17RefHeaderFirstLineOnly(c.Initial, c.Muts)) {
			p.Violation(fmt.Sprintf("%s-headers: %s, key on two header lines: add with append=false replaces only the first line (the other value survives)", c.Dir, c.Carrier),
				fmt.Sprintf("route kind %s; config %s; message carried x-k=%v; mutations %s: expected x-k values %v, got %v", c.Kind, text, c.Initial, c17MutsString(c.Muts), want, got), c)
			return
		}
		what = "key on two header lines: " + what
	}
	p.Violation(fmt.Sprintf("%s-headers: route kind %s, %s: %s", c.Dir, c17KindClass(c.Kind), c.Carrier, what),
		fmt.Sprintf("config %s; message carried x-k=%v; mutations %s: expected x-k values %v, got %v", text, c.Initial, c17MutsString(c.Muts), want, got), c)
}
