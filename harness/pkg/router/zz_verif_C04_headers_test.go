//go:build verif

package router

import (
	"fmt"
	"testing"
	"time"

	"mosn.io/mosn/pkg/verifrt/vreport"
)

// C04 part 2b: header-matched rules, generated.
//
// The router has several shortcuts keyed on the SHAPE of a rule's header
// matcher list rather than on its meaning:
//
//   - rpc_rule.go CreateRPCRule: a header-only rule with exactly ONE matcher whose
//     name is `service` is switched to the legacy "fastmatch" mode (literal
//     compare of the request's service header, `.*` accepted as "anything",
//     empty value never matches, regex flag not consulted);
//   - configutility.go CreateHTTPHeaderMatcher: in path/prefix/regex rules the
//     name `method` is taken out of the header list and matched through the
//     request variable (kept in a map keyed by variable name);
//   - virtualhost.go addRouteBase: rules with exactly one exact header matcher
//     are also entered in a key/value index.
//
// A route list over a handful of hand-picked rules does not make these collide
// with the general meaning "ALL matchers of the rule hold". Here the matcher
// list itself is enumerated: every ordered list of 1..3 matchers with pairwise
// different names from {service, h, method}, each with every value form
// {exact, anchored regex, literal `.*`, regex `.*`}, as a header-only (RPC) rule
// and as a prefix rule; plus lists that repeat a name. Every rule is followed
// by a catch-all and probed with every combination of
// absent / matching / non-matching / `.*` / empty values of the three headers
// and both request methods. A second part puts every ordered pair of such
// rules (<=2 matchers) in front of the catch-all.
//
// The oracle is the reference of zz_verif_C04_ref_test.go: the first rule in
// configuration order whose matchers ALL hold.

var c04HMNames = []string{"service", "h", "method"}

// value forms per name: exact, anchored regex, literal ".*", regex ".*"
func c04HMForms(name string, all bool) []c04Hdr {
	var exact, re string
	switch name {
	case "service":
		exact, re = "svc", "^sv.$"
	case "h":
		exact, re = "1", "^[12]$"
	case "method":
		exact, re = "GET", "^(GET|PUT)$"
	}
	out := []c04Hdr{{Name: name, Value: exact}, {Name: name, Value: re, Regex: true}}
	if all || name == "service" {
		out = append(out, c04Hdr{Name: name, Value: ".*"}, c04Hdr{Name: name, Value: ".*", Regex: true})
	}
	return out
}

// c04GenMatcherLists: every ordered list of 1..maxLen matchers with pairwise
// different names, every value form per matcher.
func c04GenMatcherLists(maxLen int, allForms bool) [][]c04Hdr {
	var out [][]c04Hdr
	var rec func(cur []c04Hdr, used map[string]bool)
	rec = func(cur []c04Hdr, used map[string]bool) {
		if len(cur) > 0 {
			out = append(out, append([]c04Hdr(nil), cur...))
		}
		if len(cur) == maxLen {
			return
		}
		for _, n := range c04HMNames {
			if used[n] {
				continue
			}
			used[n] = true
			for _, f := range c04HMForms(n, allForms) {
				rec(append(cur, f), used)
			}
			used[n] = false
		}
	}
	rec(nil, map[string]bool{})
	return out
}

// lists that repeat a name (one per shortcut that keys on a name) and the
// header-only rule without any matcher.
var c04HMRepeats = [][]c04Hdr{
	{{Name: "h", Value: "1"}, {Name: "h", Value: "2"}},
	{{Name: "h", Value: "1"}, {Name: "h", Value: "^[12]$", Regex: true}},
	{{Name: "service", Value: "svc"}, {Name: "service", Value: "other"}},
	{{Name: "service", Value: "svc"}, {Name: "service", Value: "^sv.$", Regex: true}},
	{{Name: "service", Value: ".*"}, {Name: "service", Value: "other"}},
	{{Name: "method", Value: "GET"}, {Name: "method", Value: "POST"}},
	{{Name: "method", Value: "POST"}, {Name: "method", Value: "GET"}},
	{{Name: "method", Value: "GET"}, {Name: "method", Value: "GET"}},
}

func c04HeaderRules(maxLen int, allForms, extras bool) []c04Rule {
	var out []c04Rule
	lists := c04GenMatcherLists(maxLen, allForms)
	if extras {
		lists = append(lists, c04HMRepeats...)
	}
	for _, hs := range lists {
		out = append(out, c04Rule{Kind: "rpc", Headers: hs})
		out = append(out, c04Rule{Kind: "prefix", Pattern: "/", Headers: hs})
	}
	if extras {
		out = append(out,
			c04Rule{Kind: "rpc"}, // no matcher at all: holds for every request
			c04Rule{Kind: "path", Pattern: "/", Headers: []c04Hdr{{Name: "service", Value: "svc"}, {Name: "h", Value: "1"}}},
			c04Rule{Kind: "regex", Pattern: "^/.*$", Headers: []c04Hdr{{Name: "service", Value: "svc"}, {Name: "h", Value: "1"}}},
			c04Rule{Kind: "path", Pattern: "/", Headers: []c04Hdr{{Name: "service", Value: ".*"}}},
			c04Rule{Kind: "regex", Pattern: "^/.*$", Headers: []c04Hdr{{Name: "method", Value: "GET"}, {Name: "service", Value: "svc"}}},
		)
	}
	return out
}

var c04HMServiceVals = []string{"-", "svc", "other", ".*", ""}

func c04HMHVals() []string {
	if vreport.Thorough() {
		return []string{"-", "1", "2", "3", ".*", ""}
	}
	return []string{"-", "1", "2", "3"}
}

var c04HMMethodHdrVals = []string{"-", "GET", "POST"}

// c04HeaderRequests: path "/", every combination of the service / h / method
// header values ("-" = header absent, "" = present and empty) x request method.
func c04HeaderRequests() []c04Req {
	var out []c04Req
	for _, sv := range c04HMServiceVals {
		for _, hv := range c04HMHVals() {
			for _, mv := range c04HMMethodHdrVals {
				for _, m := range c04Methods {
					h := map[string]string{}
					if sv != "-" {
						h["service"] = sv
					}
					if hv != "-" {
						h["h"] = hv
					}
					if mv != "-" {
						h["method"] = mv
					}
					out = append(out, c04Req{Host: "a.com", Path: "/", Method: m, Headers: h})
				}
			}
		}
	}
	return out
}

var c04CatchAll = c04Rule{Kind: "prefix", Pattern: "/"}

func c04HMBoundText(reqs []c04Req) string {
	return fmt.Sprintf("%d requests (path / x service header %q x h header %q x method header %q x request method %v; \"-\" = absent)",
		len(reqs), c04HMServiceVals, c04HMHVals(), c04HMMethodHdrVals, c04Methods)
}

func TestVerifC04HeaderRules(t *testing.T) {
	c04Quiet()
	p := vreport.Begin("C04", "header-rules", time.Duration(vreport.Pick(2, 5))*time.Minute)
	rules := c04HeaderRules(3, true, true)
	reqs := c04HeaderRequests()
	complete := vreport.Run(p,
		func(yield func(c04RouteCase) bool) {
			for _, r := range rules {
				if !yield(c04RouteCase{Rules: []c04Rule{r, c04CatchAll}}) {
					return
				}
			}
		},
		func(p *vreport.Part, c c04RouteCase) { c04CheckRoutes(p, c, reqs, false) })
	classes := map[string]bool{}
	for _, r := range rules {
		classes[c04RuleClass(r)] = true
	}
	p.Note("rule_shape_classes", len(classes))
	p.End(complete,
		fmt.Sprintf("%d rules, each followed by a catch-all prefix rule: every ordered list of 1..3 header matchers with pairwise different names from %v, every value form per matcher {exact, anchored regex, literal `.*`, regex `.*`}, as header-only (RPC) rule and as prefix-/ rule; %d matcher lists repeating a name (both kinds); the RPC rule without matchers; path and regex rules with service-first matcher lists; x %s",
			len(rules), c04HMNames, len(c04HMRepeats), c04HMBoundText(reqs)),
		"cartesian product; a rule holds iff ALL its matchers hold (exact / regex on the header map; `method` of a path/prefix/regex rule against the request method), MatchRoute must select it then and the catch-all otherwise, MatchAllRoutes must list exactly the rules that hold; not compared (either verdict admitted): the single-matcher legacy `service: .*` rule against a non-empty service header other than `.*`, a regex-flagged `method` matcher of an HTTP rule where exact and regex readings differ, a present-but-empty header against a matcher that holds for the empty string; distinct = (rule, vector of reference verdicts); outcome = position selected / decided")
}

func TestVerifC04HeaderRulePairs(t *testing.T) {
	c04Quiet()
	p := vreport.Begin("C04", "header-rule-pairs", time.Duration(vreport.Pick(3, 15))*time.Minute)
	rules := c04HeaderRules(2, vreport.Thorough(), false)
	reqs := c04HeaderRequests()
	complete := vreport.Run(p,
		func(yield func(c04RouteCase) bool) {
			for _, a := range rules {
				for _, b := range rules {
					if !yield(c04RouteCase{Rules: []c04Rule{a, b, c04CatchAll}}) {
						return
					}
				}
			}
		},
		func(p *vreport.Part, c c04RouteCase) { c04CheckRoutes(p, c, reqs, true) })
	forms := "{exact, anchored regex} (service: also literal `.*`, regex `.*`)"
	if vreport.Thorough() {
		forms = "{exact, anchored regex, literal `.*`, regex `.*`}"
	}
	p.End(complete,
		fmt.Sprintf("every ordered pair (with repetition) of %d rules, followed by a catch-all prefix rule; rules = every ordered list of 1..2 header matchers with different names from %v, value forms %s, as header-only (RPC) rule and as prefix-/ rule; x %s",
			len(rules), c04HMNames, forms, c04HMBoundText(reqs)),
		"cartesian product; MatchRoute must return the first of the three rules that holds (a rule holds iff all its matchers hold), MatchAllRoutes exactly those that hold, in order; undecided verdicts as in part header-rules; distinct = (shape class of both rules, vector of reference verdicts); outcome = position selected / decided")
}
