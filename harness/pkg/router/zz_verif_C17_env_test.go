//go:build verif

package router

import (
	"bufio"
	"context"
	"encoding/json"
	"fmt"
	"net"
	"sort"
	"strings"

	"github.com/valyala/fasthttp"
	"mosn.io/api"
	v2 "mosn.io/mosn/pkg/config/v2"
	"mosn.io/mosn/pkg/log"
	"mosn.io/mosn/pkg/network"
	"mosn.io/mosn/pkg/protocol"
	mosnhttp "mosn.io/mosn/pkg/protocol/http"
	streamhttp "mosn.io/mosn/pkg/stream/http"
	"mosn.io/mosn/pkg/types"
	"mosn.io/pkg/buffer"
	"mosn.io/pkg/variable"
)

// C17, router seam: environment shared by the parts.
//
// A configuration is written as JSON text (the way an operator configures it),
// decoded with the real v2 decoder and built with the real NewRouters. A
// request is HTTP/1 text parsed by fasthttp into the request header object the
// HTTP/1 stream layer hands to the proxy (protocol/http.RequestHeader wrapping
// *fasthttp.RequestHeader), inside a variable context that carries the
// variables pkg/stream/http/stream.go injectCtxVarFromProtocolHeaders sets on
// receive. The upstream request is what the real, exported
// stream/http.FillRequestHeadersFromCtxVar makes of headers + variables (the
// call clientStream.AppendHeaders makes before the request is serialised).

func c17Quiet() {
	log.DefaultLogger.SetLogLevel(log.FATAL)
	log.Proxy.SetLogLevel(log.FATAL)
}

// ---------------------------------------------------------------------------
// route kinds (how the route is matched; the action under test is the same)

// c17Kinds: every implementation of RouteBase NewRouteBase can produce.
var c17Kinds = []string{"prefix:/", "prefix:/a", "path:/a", "regex:^/a.*$", "variable", "rpc-headers", "dsl"}

// c17Match returns the "match" object of a route of the kind. The
// variable / rpc-headers / dsl kinds match every GET request of the alphabet.
func c17Match(kind string) map[string]interface{} {
	switch {
	case strings.HasPrefix(kind, "prefix:"):
		return map[string]interface{}{"prefix": kind[len("prefix:"):]}
	case strings.HasPrefix(kind, "path:"):
		return map[string]interface{}{"path": kind[len("path:"):]}
	case strings.HasPrefix(kind, "regex:"):
		return map[string]interface{}{"regex": kind[len("regex:"):]}
	case kind == "variable":
		return map[string]interface{}{"variables": []interface{}{map[string]interface{}{"name": types.VarMethod, "value": "GET"}}}
	case kind == "rpc-headers":
		return map[string]interface{}{"headers": []interface{}{map[string]interface{}{"name": "x-sel", "value": "1"}}}
	case kind == "dsl":
		return map[string]interface{}{"dsl_expressions": []interface{}{map[string]interface{}{"expression": `conditional((request.method == "GET"),true,false)`}}}
	}
	panic("c17Match: unknown kind " + kind)
}

// c17KindMatches: does a route of the kind match the path (reference; every
// request of the harness is a GET carrying x-sel: 1)? Case-differing paths
// are reported as matching-undecided by the caller.
func c17KindMatches(kind, path string) bool {
	switch {
	case strings.HasPrefix(kind, "prefix:"):
		return strings.HasPrefix(path, kind[len("prefix:"):])
	case strings.HasPrefix(kind, "path:"):
		return path == kind[len("path:"):]
	case strings.HasPrefix(kind, "regex:"): // only ^/a.*$
		return strings.HasPrefix(path, "/a")
	}
	return true
}

// ---------------------------------------------------------------------------
// configuration

// c17Mut is one header mutation of one level: Op "" (none), "append"
// (add, append=true), "overwrite" (add, append=false), "remove".
type c17Mut struct {
	Op    string `json:"op,omitempty"`
	Key   string `json:"key,omitempty"`
	Value string `json:"value,omitempty"`
}

func (m c17Mut) String() string {
	if m.Op == "" {
		return "-"
	}
	if m.Op == "remove" {
		return "remove(" + m.Key + ")"
	}
	return m.Op + "(" + m.Key + "=" + m.Value + ")"
}

// c17PutMut writes the mutation into the JSON object of a level
// (route action / virtual host / router configuration share the field names).
func c17PutMut(obj map[string]interface{}, dir string, m c17Mut) {
	switch m.Op {
	case "append", "overwrite":
		obj[dir+"_headers_to_add"] = []interface{}{map[string]interface{}{
			"header": map[string]interface{}{"key": m.Key, "value": m.Value},
			"append": m.Op == "append",
		}}
	case "remove":
		obj[dir+"_headers_to_remove"] = []interface{}{m.Key}
	}
}

// c17Conf is everything the harness configures on the single route of the
// single (default) virtual host.
type c17Conf struct {
	Kind          string   `json:"kind"`
	PrefixRewrite string   `json:"prefix_rewrite,omitempty"`
	RegexPattern  string   `json:"regex_pattern,omitempty"`
	RegexSubst    string   `json:"regex_subst,omitempty"`
	HostRewrite   string   `json:"host_rewrite,omitempty"`
	HostHeader    string   `json:"auto_host_rewrite_header,omitempty"`
	Req           [3]c17Mut `json:"req_mut"`  // route, virtual host, router level
	Resp          [3]c17Mut `json:"resp_mut"` // route, virtual host, router level
	Redirect      *c17Redirect `json:"redirect,omitempty"`
	Direct        *c17Direct   `json:"direct,omitempty"`
	Timeout       string   `json:"timeout,omitempty"` // JSON duration text, "" = absent
	Retry         *c17Retry `json:"retry,omitempty"`
}

type c17Redirect struct {
	Scheme string `json:"scheme,omitempty"`
	Host   string `json:"host,omitempty"`
	Path   string `json:"path,omitempty"`
	Code   int    `json:"code,omitempty"`
}

type c17Direct struct {
	Status int    `json:"status"`
	Body   string `json:"body"`
}

type c17Retry struct {
	RetryOn    bool     `json:"retry_on"`
	Timeout    string   `json:"retry_timeout,omitempty"`
	NumRetries uint32   `json:"num_retries"`
	Codes      []uint32 `json:"status_codes,omitempty"`
}

// c17ConfigJSON renders the configuration text.
func c17ConfigJSON(c c17Conf) string {
	action := map[string]interface{}{"cluster_name": "c17cluster"}
	if c.PrefixRewrite != "" {
		action["prefix_rewrite"] = c.PrefixRewrite
	}
	if c.RegexPattern != "" {
		action["regex_rewrite"] = map[string]interface{}{
			"pattern":      map[string]interface{}{"regex": c.RegexPattern},
			"substitution": c.RegexSubst,
		}
	}
	if c.HostRewrite != "" {
		action["host_rewrite"] = c.HostRewrite
	}
	if c.HostHeader != "" {
		action["auto_host_rewrite_header"] = c.HostHeader
	}
	if c.Timeout != "" {
		action["timeout"] = c.Timeout
	}
	if c.Retry != nil {
		rp := map[string]interface{}{"retry_on": c.Retry.RetryOn, "num_retries": c.Retry.NumRetries}
		if c.Retry.Timeout != "" {
			rp["retry_timeout"] = c.Retry.Timeout
		}
		if c.Retry.Codes != nil {
			rp["status_codes"] = c.Retry.Codes
		}
		action["retry_policy"] = rp
	}
	c17PutMut(action, "request", c.Req[0])
	c17PutMut(action, "response", c.Resp[0])
	route := map[string]interface{}{"match": c17Match(c.Kind), "route": action}
	if c.Redirect != nil {
		rd := map[string]interface{}{}
		if c.Redirect.Scheme != "" {
			rd["scheme_redirect"] = c.Redirect.Scheme
		}
		if c.Redirect.Host != "" {
			rd["host_redirect"] = c.Redirect.Host
		}
		if c.Redirect.Path != "" {
			rd["path_redirect"] = c.Redirect.Path
		}
		if c.Redirect.Code != 0 {
			rd["response_code"] = c.Redirect.Code
		}
		route["redirect"] = rd
	}
	if c.Direct != nil {
		route["direct_response"] = map[string]interface{}{"status": c.Direct.Status, "body": c.Direct.Body}
	}
	vh := map[string]interface{}{"name": "vh0", "domains": []interface{}{"*"}, "routers": []interface{}{route}}
	c17PutMut(vh, "request", c.Req[1])
	c17PutMut(vh, "response", c.Resp[1])
	cfg := map[string]interface{}{"router_config_name": "verif_c17", "virtual_hosts": []interface{}{vh}}
	c17PutMut(cfg, "request", c.Req[2])
	c17PutMut(cfg, "response", c.Resp[2])
	b, err := json.Marshal(cfg)
	if err != nil {
		panic(err)
	}
	return string(b)
}

// c17Build decodes the text with the real decoder and builds the real routers.
func c17Build(text string) (rs types.Routers, err error, panicked string) {
	defer func() {
		if r := recover(); r != nil {
			panicked = fmt.Sprint(r)
		}
	}()
	cfg := &v2.RouterConfiguration{}
	if err = json.Unmarshal([]byte(text), cfg); err != nil {
		return nil, err, ""
	}
	rs, err = NewRouters(cfg)
	return
}

// ---------------------------------------------------------------------------
// requests and responses

// c17Req is one downstream request. Every request is a GET with x-sel: 1
// (so that the header-matched kinds match it).
type c17Req struct {
	Carrier string      `json:"carrier"` // "http1": HTTP/1 request header object; "common": protocol.CommonHeader (what xprotocol-style codecs hand over)
	Host    string      `json:"host"`
	Path    string      `json:"path"`
	Query   string      `json:"query,omitempty"`
	Headers [][2]string `json:"headers,omitempty"` // extra headers, in order (a key may repeat for http1)
}

func (q c17Req) String() string {
	s := q.Carrier + " GET " + q.Host + q.Path
	if q.Query != "" {
		s += "?" + q.Query
	}
	for _, h := range q.Headers {
		s += " " + h[0] + ":" + h[1]
	}
	return s
}

// c17Downstream is the request as the stream layer hands it to the proxy.
type c17Downstream struct {
	ctx     context.Context
	headers api.HeaderMap
	http    *fasthttp.Request // nil for carrier "common"
}

// c17Receive builds (ctx, headers) for a request.
//
// http1: the text is parsed by fasthttp (serverStreamConnection.serve uses
// fasthttp.Request.ReadLimitBody on the connection's reader), the header
// object is mosnhttp.RequestHeader{&request.Header} (stream.go serve), the
// context is a buffer-pool context over a variable context with
// VariableDownStreamProtocol = Http1 (serve), and the variables are the ones
// injectCtxVarFromProtocolHeaders sets in handleRequest: x-mosn-host and
// authority = uri.Host(), x-mosn-method, x-mosn-path = uri.Path(),
// x-mosn-path-original = uri.PathOriginal(), x-mosn-querystring if non-empty.
// That function is unexported in another package, so these six assignments
// are replicated here (trusted).
func c17Receive(q c17Req) (*c17Downstream, error) {
	ctx := buffer.NewBufferPoolContext(variable.NewVariableContext(context.Background()))
	if q.Carrier == "common" {
		_ = variable.Set(ctx, types.VariableDownStreamProtocol, api.ProtocolName("c17x"))
		h := protocol.CommonHeader{"x-sel": "1"}
		for _, kv := range q.Headers {
			h[kv[0]] = kv[1]
		}
		variable.SetString(ctx, types.VarHost, q.Host)
		variable.SetString(ctx, types.VarIstioHeaderHost, q.Host)
		variable.SetString(ctx, types.VarMethod, "GET")
		variable.SetString(ctx, types.VarPath, q.Path)
		variable.SetString(ctx, types.VarPathOriginal, q.Path)
		if q.Query != "" {
			variable.SetString(ctx, types.VarQueryString, q.Query)
		}
		return &c17Downstream{ctx: ctx, headers: h}, nil
	}
	uri := q.Path
	if q.Query != "" {
		uri += "?" + q.Query
	}
	var sb strings.Builder
	sb.WriteString("GET " + uri + " HTTP/1.1\r\nHost: " + q.Host + "\r\nx-sel: 1\r\n")
	for _, kv := range q.Headers {
		sb.WriteString(kv[0] + ": " + kv[1] + "\r\n")
	}
	sb.WriteString("\r\n")
	req := &fasthttp.Request{}
	if err := req.Read(bufio.NewReader(strings.NewReader(sb.String()))); err != nil {
		return nil, err
	}
	_ = variable.Set(ctx, types.VariableDownStreamProtocol, protocol.HTTP1)
	header := mosnhttp.RequestHeader{RequestHeader: &req.Header}
	u := req.URI()
	variable.SetString(ctx, types.VarHost, string(u.Host()))
	variable.SetString(ctx, types.VarIstioHeaderHost, string(u.Host()))
	variable.SetString(ctx, types.VarMethod, string(header.Method()))
	variable.SetString(ctx, types.VarPath, string(u.Path()))
	variable.SetString(ctx, types.VarPathOriginal, string(u.PathOriginal()))
	if qs := u.QueryString(); len(qs) > 0 {
		variable.SetString(ctx, types.VarQueryString, string(qs))
	}
	return &c17Downstream{ctx: ctx, headers: header, http: req}, nil
}

// c17Upstream is the request an upstream attempt would carry.
type c17Upstream struct {
	URI     string              // request URI (http1) / path variable + query (common)
	Host    string              // Host header (http1) / authority variable, else host variable (common)
	Path    string              // the path variable after the route's actions
	Headers map[string][]string // lower-cased name -> values in order of appearance
}

var c17RemoteAddr = &net.TCPAddr{IP: net.IPv4(10, 0, 0, 1), Port: 8080}

// c17Send produces the upstream view of the (mutated) request: for http1 the
// real FillRequestHeadersFromCtxVar writes request URI, method and Host from
// the variables into the header object exactly as clientStream.AppendHeaders
// does; for the common carrier the variables themselves are the upstream view
// (xprotocol codecs read them back the same way).
func c17Send(d *c17Downstream) c17Upstream {
	up := c17Upstream{Headers: map[string][]string{}}
	up.Path, _ = variable.GetString(d.ctx, types.VarPath)
	if d.http != nil {
		h := d.headers.(mosnhttp.RequestHeader)
		streamhttp.FillRequestHeadersFromCtxVar(d.ctx, h, c17RemoteAddr)
		up.URI = string(h.RequestURI())
		up.Host = string(h.Host())
		h.VisitAll(func(k, v []byte) {
			n := strings.ToLower(string(k))
			up.Headers[n] = append(up.Headers[n], string(v))
		})
		return up
	}
	up.URI = up.Path
	if qs, err := variable.GetString(d.ctx, types.VarQueryString); err == nil && qs != "" {
		up.URI += "?" + qs
	}
	if a, err := variable.GetString(d.ctx, types.VarIstioHeaderHost); err == nil && a != "" {
		up.Host = a
	} else {
		up.Host, _ = variable.GetString(d.ctx, types.VarHost)
	}
	d.headers.Range(func(k, v string) bool {
		n := strings.ToLower(k)
		up.Headers[n] = append(up.Headers[n], v)
		return true
	})
	return up
}

// c17Response builds the upstream response header object of the carrier with
// the given extra headers.
func c17Response(carrier string, hdrs [][2]string) (api.HeaderMap, error) {
	if carrier == "common" {
		h := protocol.CommonHeader{}
		for _, kv := range hdrs {
			h[kv[0]] = kv[1]
		}
		return h, nil
	}
	var sb strings.Builder
	sb.WriteString("HTTP/1.1 200 OK\r\nContent-Length: 0\r\n")
	for _, kv := range hdrs {
		sb.WriteString(kv[0] + ": " + kv[1] + "\r\n")
	}
	sb.WriteString("\r\n")
	resp := &fasthttp.Response{}
	if err := resp.Read(bufio.NewReader(strings.NewReader(sb.String()))); err != nil {
		return nil, err
	}
	return mosnhttp.ResponseHeader{ResponseHeader: &resp.Header}, nil
}

func c17HeaderValues(h api.HeaderMap) map[string][]string {
	out := map[string][]string{}
	h.Range(func(k, v string) bool {
		n := strings.ToLower(k)
		out[n] = append(out[n], v)
		return true
	})
	return out
}

// c17Flat: the values of one header as one comma-joined list, and as a
// sorted multiset of its comma-separated members.
func c17Flat(vals []string) (string, string) {
	flat := strings.Join(vals, ",")
	if len(vals) == 0 {
		return "", ""
	}
	m := strings.Split(flat, ",")
	sort.Strings(m)
	return flat, strings.Join(m, ",")
}

// ---------------------------------------------------------------------------
// calling the real objects the way the proxy does

// c17Route matches the request (downStream.matchRoute -> handler -> routers.MatchRoute).
func c17Route(rs types.Routers, d *c17Downstream) (r api.Route, panicked string) {
	defer func() {
		if x := recover(); x != nil {
			panicked = fmt.Sprint(x)
		}
	}()
	return rs.MatchRoute(d.ctx, d.headers), ""
}

// c17FinalizeRequest = downStream.receiveHeaders:
// s.route.RouteRule().FinalizeRequestHeaders(s.context, s.downstreamReqHeaders, s.requestInfo)
func c17FinalizeRequest(r api.Route, d *c17Downstream) (panicked string) {
	defer func() {
		if x := recover(); x != nil {
			panicked = fmt.Sprint(x)
		}
	}()
	r.RouteRule().FinalizeRequestHeaders(d.ctx, d.headers, network.NewRequestInfo())
	return ""
}

// c17FinalizeResponse = downStream.onUpstreamHeaders:
// s.route.RouteRule().FinalizeResponseHeaders(s.context, headers, s.requestInfo)
func c17FinalizeResponse(r api.Route, ctx context.Context, h api.HeaderMap) (panicked string) {
	defer func() {
		if x := recover(); x != nil {
			panicked = fmt.Sprint(x)
		}
	}()
	r.RouteRule().FinalizeResponseHeaders(ctx, h, network.NewRequestInfo())
	return ""
}
