//go:build verif

package router

import "testing"

// C12: "Requests concurrent with an update are handled entirely by the old or entirely by the new
// configuration and never fail because of the swap" for the ROUTE-TABLE updates of the router manager
// (AddOrUpdateRouters, AddRoute, RemoveAllRoutes + AddRoute programs) running against 1-2 lookup threads
// (GetRouters + MatchRoute | MatchAllRoutes) under the cooperative scheduler. The exploration and the judge are
// the ones of the C04 part concurrent-route-updates (zz_verif_C04_concupdate_test.go, included in this unit
// through "also": ["C04"]); only the property the part reports under differs (seeded change C12-r6: lookups
// matching outside the virtual host's lock on a backing array that RemoveAllRoutes re-uses).
func TestVerifC12RouteUpdates(t *testing.T) {
	c04CUProp = "C12"
	c04CUMain(t)
}
