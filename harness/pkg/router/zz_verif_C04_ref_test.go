//go:build verif

package router

// C04 — route selection precedence: reference model, alphabets and helpers.
//
// The oracle below is written from the property statement and the documented
// contract only (the "match priority rules" comment of routers_impl.go, the
// field comments of v2.RouterMatch / v2.HeaderMatcher / v2.VariableMatcher and
// the types.Routers interface comments). It does not use the router's maps,
// sorted wildcard slices or matcher objects: a virtual host is selected by
// scoring every configured domain against the request, a route by evaluating
// every rule descriptor with package strings/regexp.
//
// The reference is three-valued. Wherever the statement does not decide whether
// a rule matches (letter case of a path against a path/prefix rule; the legacy
// `service: .*` fast-match; and/or variable chains whose two natural readings
// disagree) the rule evaluates to "unknown" and every selection consistent with
// either reading is admitted.

import (
	"context"
	"fmt"
	"net/url"
	"regexp"
	"sort"
	"strings"

	"mosn.io/api"
	v2 "mosn.io/mosn/pkg/config/v2"
	"mosn.io/mosn/pkg/log"
	"mosn.io/mosn/pkg/protocol"
	"mosn.io/mosn/pkg/types"
	"mosn.io/pkg/variable"
)

func c04Quiet() {
	// failed variable-rule matches and rejected configurations are logged at
	// ERROR level by the code under test: millions of lines otherwise.
	log.DefaultLogger.SetLogLevel(log.FATAL)
	log.Proxy.SetLogLevel(log.FATAL)
}

// ---------------------------------------------------------------------------
// virtual host selection

const (
	c04KindExact = iota
	c04KindWildcard
	c04KindDefault
)

type c04Dom struct {
	host, port string // lower-cased; port "" = none, "*" = any
	kind       int
}

func c04ParseDomain(d string) c04Dom {
	d = strings.ToLower(d)
	host, port := d, ""
	if i := strings.LastIndex(d, ":"); i >= 0 {
		host, port = d[:i], d[i+1:]
	}
	k := c04KindExact
	switch {
	case host == "*" && (port == "" || port == "*"):
		k = c04KindDefault
	case strings.HasPrefix(host, "*"):
		k = c04KindWildcard
	}
	return c04Dom{host: host, port: port, kind: k}
}

// c04ParseHost splits a Host/:authority value. ok=false: not a syntactically
// valid host[:port] (empty, unbalanced brackets, several colons outside brackets).
func c04ParseHost(s string) (host, port string, ok bool) {
	if s == "" {
		return "", "", false
	}
	s = strings.ToLower(s)
	if s[0] == '[' {
		end := strings.Index(s, "]")
		if end < 0 {
			return "", "", false
		}
		host = s[1:end]
		rest := s[end+1:]
		if rest == "" {
			return host, "", true
		}
		if rest[0] != ':' || strings.ContainsAny(rest[1:], ":[]") || len(rest) == 1 {
			return "", "", false
		}
		return host, rest[1:], true
	}
	if strings.ContainsAny(s, "[]") {
		return "", "", false
	}
	switch strings.Count(s, ":") {
	case 0:
		return s, "", true
	case 1:
		i := strings.Index(s, ":")
		if i == len(s)-1 || i == 0 {
			return "", "", false
		}
		return s[:i], s[i+1:], true
	}
	return "", "", false
}

// priority classes of the statement, smaller is better
const (
	c04ClassExactPort = 1 + iota
	c04ClassExactAnyPort
	c04ClassWildPort
	c04ClassWildAnyPort
	c04ClassDefault
	c04ClassNoMatch
)

var c04ClassName = map[int]string{
	c04ClassExactPort: "exact-host+exact-port", c04ClassExactAnyPort: "exact-host+any-port",
	c04ClassWildPort: "wildcard-suffix+exact-port", c04ClassWildAnyPort: "wildcard-suffix+any-port",
	c04ClassDefault: "default", c04ClassNoMatch: "non-matching-domain",
}

// c04DomClass: how domain d applies to the request (host, port); suffix length
// is returned for the wildcard classes.
func c04DomClass(d c04Dom, host, port string) (class int, suffixLen int) {
	switch d.kind {
	case c04KindDefault:
		return c04ClassDefault, 0
	case c04KindExact:
		if d.host != host {
			return c04ClassNoMatch, 0
		}
		if d.port == port {
			return c04ClassExactPort, 0
		}
		if d.port == "*" {
			return c04ClassExactAnyPort, 0
		}
	case c04KindWildcard:
		suffix := d.host[1:]
		// "*" stands for at least one character
		if len(host) > len(suffix) && strings.HasSuffix(host, suffix) {
			if d.port == port {
				return c04ClassWildPort, len(suffix)
			}
			if d.port == "*" {
				return c04ClassWildAnyPort, len(suffix)
			}
		}
	}
	return c04ClassNoMatch, 0
}

// c04RefVHost returns the index of the virtual host the documented precedence
// selects (-1: none) with its class and suffix length.
func c04RefVHost(vhosts [][]string, host, port string) (idx, class, slen int) {
	idx, class, slen = -1, c04ClassNoMatch, 0
	for i, doms := range vhosts {
		for _, ds := range doms {
			c, l := c04DomClass(c04ParseDomain(ds), host, port)
			if c == c04ClassNoMatch {
				continue
			}
			if c < class || (c == class && l > slen) {
				idx, class, slen = i, c, l
			}
		}
	}
	return
}

// c04RefClassOf: best class with which virtual host i applies to the request.
func c04RefClassOf(doms []string, host, port string) (class, slen int) {
	class = c04ClassNoMatch
	for _, ds := range doms {
		c, l := c04DomClass(c04ParseDomain(ds), host, port)
		if c < class || (c == class && l > slen) {
			class, slen = c, l
		}
	}
	return
}

func c04RefDefault(vhosts [][]string) int {
	for i, doms := range vhosts {
		for _, ds := range doms {
			if c04ParseDomain(ds).kind == c04KindDefault {
				return i
			}
		}
	}
	return -1
}

// c04RefDuplicate: two domains of the set are equal ignoring case — the
// precedence would be ambiguous, the configuration must be rejected.
func c04RefDuplicate(vhosts [][]string) bool {
	seen := map[string]bool{}
	for _, doms := range vhosts {
		for _, ds := range doms {
			d := c04ParseDomain(ds)
			k := d.host + "|" + d.port
			if d.kind == c04KindDefault {
				k = "*"
			}
			if seen[k] {
				return true
			}
			seen[k] = true
		}
	}
	return false
}

// ---------------------------------------------------------------------------
// rules

type c04Hdr struct {
	Name  string `json:"name"`
	Value string `json:"value"`
	Regex bool   `json:"regex,omitempty"`
}

type c04Var struct {
	Name  string `json:"name"`
	Value string `json:"value,omitempty"`
	Regex string `json:"regex,omitempty"`
	Model string `json:"model,omitempty"` // connective to the NEXT item: "and" (default) / "or"
}

type c04Rule struct {
	Kind    string   `json:"kind"` // path | prefix | regex | regex-search | variable | rpc | dsl
	Pattern string   `json:"pattern,omitempty"`
	Headers []c04Hdr `json:"headers,omitempty"`
	Vars    []c04Var `json:"vars,omitempty"`
	Dsl     []c04Dsl `json:"dsl,omitempty"` // kind dsl: the rule's dsl_expressions (zz_verif_C04_dsl_test.go)
}

func (r c04Rule) String() string {
	s := r.Kind
	if r.Pattern != "" {
		s += " " + r.Pattern
	}
	for _, h := range r.Headers {
		op := "="
		if h.Regex {
			op = "~"
		}
		s += " " + h.Name + op + h.Value
	}
	for _, e := range r.Dsl {
		s += " {" + e.Text() + "}"
	}
	for i, v := range r.Vars {
		if v.Regex != "" {
			s += " " + v.Name + "~" + v.Regex
		} else {
			s += " " + v.Name + "=" + v.Value
		}
		if i < len(r.Vars)-1 {
			m := v.Model
			if m == "" {
				m = "and"
			}
			s += " " + m
		}
	}
	return s
}

type c04Req struct {
	Host    string            `json:"host"`
	Path    string            `json:"path"`
	Method  string            `json:"method"`
	Headers map[string]string `json:"headers,omitempty"`
	Query   string            `json:"query,omitempty"` // query string (request variable of its own, not part of the path)
}

func (q c04Req) String() string {
	var hs []string
	for k, v := range q.Headers {
		hs = append(hs, k+"="+v)
	}
	sort.Strings(hs)
	if q.Query != "" {
		return fmt.Sprintf("%s %s?%s host=%q %v", q.Method, q.Path, q.Query, q.Host, hs)
	}
	return fmt.Sprintf("%s %s host=%q %v", q.Method, q.Path, q.Host, hs)
}

type c04Tri int

const (
	c04No c04Tri = iota
	c04Yes
	c04Unknown
)

func (t c04Tri) String() string { return [...]string{"N", "Y", "?"}[t] }

func c04And(a, b c04Tri) c04Tri {
	if a == c04No || b == c04No {
		return c04No
	}
	if a == c04Unknown || b == c04Unknown {
		return c04Unknown
	}
	return c04Yes
}

func c04B(b bool) c04Tri {
	if b {
		return c04Yes
	}
	return c04No
}

var c04ReCache = map[string]*regexp.Regexp{}

func c04Compiles(p string) bool {
	_, err := regexp.Compile(p)
	return err == nil
}

// c04Re: all patterns of the alphabets are anchored at both ends (or are ".*"),
// so "regex" means the same under search and full-match readings.
func c04Re(p string) *regexp.Regexp {
	if r, ok := c04ReCache[p]; ok {
		return r
	}
	if p != ".*" && !(strings.HasPrefix(p, "^") && strings.HasSuffix(p, "$")) {
		panic("C04 harness: unanchored pattern in alphabet: " + p)
	}
	r := regexp.MustCompile(p)
	c04ReCache[p] = r
	return r
}

// c04RefHeaders: conjunction of the header matchers. In HTTP rules the name
// "method" refers to the request method, everything else to the header map
// (exact value, or regex when flagged); an absent header never matches.
//
// Not decided by the statement (enumerated, either verdict admitted):
//   - an HTTP "method" matcher flagged as regex: configutility.go documents the
//     variable-backed keys as "exact match only", the config type allows the
//     flag; undecided where the exact and the regex reading differ;
//   - a header that is present with an EMPTY value against a matcher that would
//     hold for the empty string: whether such a header counts as present.
func c04RefHeaders(http bool, hs []c04Hdr, q c04Req) c04Tri {
	res := c04Yes
	for _, h := range hs {
		if http && h.Name == "method" {
			exact := q.Method == h.Value
			if h.Regex && c04Re(h.Value).MatchString(q.Method) != exact {
				res = c04And(res, c04Unknown)
				continue
			}
			res = c04And(res, c04B(exact))
			continue
		}
		if h.Regex && !c04Compiles(h.Value) {
			// a matcher whose pattern is not a regular expression: the statement
			// defines nothing (the tree drops the matcher with an error log)
			res = c04And(res, c04Unknown)
			continue
		}
		v, ok := q.Headers[h.Name]
		if !ok {
			res = c04No
			continue
		}
		m := v == h.Value
		if h.Regex {
			m = c04Re(h.Value).MatchString(v)
		}
		if m && v == "" {
			res = c04And(res, c04Unknown)
			continue
		}
		res = c04And(res, c04B(m))
	}
	return res
}

func c04VarValue(name string, q c04Req) string {
	switch name {
	case types.VarHost:
		return q.Host
	case types.VarPath:
		return q.Path
	case types.VarMethod:
		return q.Method
	}
	panic("C04 harness: variable not in alphabet: " + name)
}

// c04RefVars: and/or chain. Two natural readings: "and" binds tighter than "or"
// (disjunction of conjunctions) and strict left-to-right evaluation. Where they
// agree the result is decided, otherwise unknown.
func c04RefVars(vs []c04Var, q c04Req) c04Tri {
	vals := make([]bool, len(vs))
	for i, v := range vs {
		a := c04VarValue(v.Name, q)
		if v.Regex != "" {
			// variable matchers: "regex" is a SEARCH (regexp.MatchString) - the repository's own tests of the
			// variable rule spell the semantics out ("regex.MatchString(uri)" with the unanchored pattern
			// /[0-9]+, pkg/router/variable_rule_test.go), so unanchored patterns are decided here, unlike for
			// path rules and header matchers (c04Re)
			vals[i] = regexp.MustCompile(v.Regex).MatchString(a)
		} else {
			vals[i] = a == v.Value
		}
	}
	// reading 1: OR of AND-groups
	dnf, grp := false, true
	for i := range vs {
		grp = grp && vals[i]
		if i == len(vs)-1 || strings.EqualFold(vs[i].Model, "or") {
			dnf = dnf || grp
			grp = true
		}
	}
	// reading 2: left to right
	ltr := vals[0]
	for i := 1; i < len(vs); i++ {
		if strings.EqualFold(vs[i-1].Model, "or") {
			ltr = ltr || vals[i]
		} else {
			ltr = ltr && vals[i]
		}
	}
	if dnf == ltr {
		return c04B(dnf)
	}
	return c04Unknown
}

// c04RefRule: does rule r hold for request q? A path with percent-encoded
// characters is evaluated as given and percent-decoded: the statement does not
// say which form the rules see, so the verdict is decided only where both agree.
func c04RefRule(r c04Rule, q c04Req) c04Tri {
	t := c04RefRuleRaw(r, q)
	if strings.Contains(q.Path, "%") {
		if dec, err := url.PathUnescape(q.Path); err == nil && dec != q.Path {
			q2 := q
			q2.Path = dec
			if c04RefRuleRaw(r, q2) != t {
				return c04Unknown
			}
		}
	}
	return t
}

// c04RefRegexSearch: unanchored regex rule under the "search" and the "whole
// path" readings; an empty path is left undecided when either reading holds.
func c04RefRegexSearch(pattern, path string) c04Tri {
	search := regexp.MustCompile(pattern).MatchString(path)
	full := regexp.MustCompile("^(?:" + pattern + ")$").MatchString(path)
	if search != full || (path == "" && search) {
		return c04Unknown
	}
	return c04B(search)
}

func c04RefRuleRaw(r c04Rule, q c04Req) c04Tri {
	switch r.Kind {
	case "path":
		t := c04No
		if q.Path == r.Pattern {
			t = c04Yes
		} else if strings.EqualFold(q.Path, r.Pattern) {
			t = c04Unknown // the statement fixes case-insensitivity for host names only
		}
		return c04And(t, c04RefHeaders(true, r.Headers, q))
	case "prefix":
		t := c04No
		if strings.HasPrefix(q.Path, r.Pattern) {
			t = c04Yes
		} else if len(q.Path) >= len(r.Pattern) && strings.EqualFold(q.Path[:len(r.Pattern)], r.Pattern) {
			t = c04Unknown
		}
		return c04And(t, c04RefHeaders(true, r.Headers, q))
	case "regex":
		return c04And(c04B(c04Re(r.Pattern).MatchString(q.Path)), c04RefHeaders(true, r.Headers, q))
	case "regex-search":
		// unanchored pattern: "Match request's Path with Regex Comparing" does not say
		// whether the pattern must cover the whole path; decided where both readings agree
		return c04And(c04RefRegexSearch(r.Pattern, q.Path), c04RefHeaders(true, r.Headers, q))
	case "variable":
		return c04RefVars(r.Vars, q)
	case "dsl":
		return c04RefDslRule(r.Dsl, q)
	case "rpc":
		if len(r.Headers) == 1 && r.Headers[0].Name == types.RPCRouteMatchKey && r.Headers[0].Value == ".*" && !r.Headers[0].Regex {
			// legacy wildcard: documented only as "compatible for old version".
			// An absent header matches under no reading; a present one matches
			// under the legacy reading and not under the literal one.
			if v, ok := q.Headers[types.RPCRouteMatchKey]; !ok || v == "" {
				return c04No
			}
			return c04Unknown
		}
		return c04RefHeaders(false, r.Headers, q)
	}
	panic("C04 harness: unknown rule kind " + r.Kind)
}

// c04RefRoute: admissible results of the first-match selection over rules
// (indices; -1 = no route), and the per-rule verdicts.
func c04RefRoute(rules []c04Rule, q c04Req) (adm []int, verdict []c04Tri) {
	verdict = make([]c04Tri, len(rules))
	for i, r := range rules {
		verdict[i] = c04RefRule(r, q)
	}
	for i, t := range verdict {
		if t == c04Yes {
			return append(adm, i), verdict
		}
		if t == c04Unknown {
			adm = append(adm, i)
		}
	}
	return append(adm, -1), verdict
}

func c04In(xs []int, x int) bool {
	for _, y := range xs {
		if x == y {
			return true
		}
	}
	return false
}

// ---------------------------------------------------------------------------
// driving the real code

func c04Router(r c04Rule, cluster string) v2.Router {
	var out v2.Router
	switch r.Kind {
	case "path":
		out.Match.Path = r.Pattern
	case "prefix":
		out.Match.Prefix = r.Pattern
	case "regex", "regex-search":
		out.Match.Regex = r.Pattern
	case "dsl":
		for _, e := range r.Dsl {
			out.Match.DslExpressions = append(out.Match.DslExpressions, v2.DslExpressionMatcher{Expression: e.Text()})
		}
	}
	for _, h := range r.Headers {
		out.Match.Headers = append(out.Match.Headers, v2.HeaderMatcher{Name: h.Name, Value: h.Value, Regex: h.Regex})
	}
	for _, v := range r.Vars {
		out.Match.Variables = append(out.Match.Variables, v2.VariableMatcher{Name: v.Name, Value: v.Value, Regex: v.Regex, Model: v.Model})
	}
	out.Route.ClusterName = cluster
	return out
}

func c04Ctx(q c04Req) (context.Context, api.HeaderMap) {
	ctx := variable.NewVariableContext(context.Background())
	if q.Host != "" {
		variable.SetString(ctx, types.VarHost, q.Host)
	}
	variable.SetString(ctx, types.VarPath, q.Path)
	variable.SetString(ctx, types.VarMethod, q.Method)
	if q.Query != "" {
		variable.SetString(ctx, types.VarQueryString, q.Query)
	}
	h := protocol.CommonHeader{}
	for k, v := range q.Headers {
		h[k] = v
	}
	return ctx, h
}

func c04Cluster(ctx context.Context, r api.Route) string {
	if r == nil {
		return ""
	}
	return r.RouteRule().ClusterName(ctx)
}

// c04Lookup runs MatchRoute and MatchAllRoutes of the real router; panics of
// the code under test are returned as text.
func c04Lookup(rs types.Routers, q c04Req) (one string, all []string, panicked string) {
	defer func() {
		if r := recover(); r != nil {
			panicked = fmt.Sprint(r)
		}
	}()
	ctx, h := c04Ctx(q)
	one = c04Cluster(ctx, rs.MatchRoute(ctx, h))
	ctx2, h2 := c04Ctx(q)
	for _, r := range rs.MatchAllRoutes(ctx2, h2) {
		all = append(all, c04Cluster(ctx2, r))
	}
	return
}

func c04NewRouters(cfg *v2.RouterConfiguration) (rs types.Routers, err error, panicked string) {
	defer func() {
		if r := recover(); r != nil {
			panicked = fmt.Sprint(r)
		}
	}()
	rs, err = NewRouters(cfg)
	return
}

// ---------------------------------------------------------------------------
// alphabets

// Domain alphabet: the DESIGN list plus two further wildcard-host+wildcard-port
// domains, so that every wildcard class (no port, exact port, any port) has
// suffixes of different lengths coexisting in one configuration.
var c04Domains = []string{"*", "a.com", "A.com", "a.com:80", "a.com:*", "*.com", "*.a.com", "*.b.a.com", "*:80", "*.com:80", "*.com:*", "b.com", "*.a.com:*", "*.b.a.com:*",
	// wildcard domains written in mixed case (compared case-insensitively like exact ones; seeded change C04-r6)
	"*.A.Com", "*.B.a.COM:*"}

// Host values: the DESIGN list, upper-case/ported variants of it, three
// syntactically invalid values, and hosts not longer than a configured suffix.
var c04Hosts = []string{"", "a.com", "A.COM", "a.com:80", "A.Com:80", "a.com:81", "x.a.com", "X.A.com:80", "y.b.a.com:80", "y.b.a.com", "b.com", "b.com:80",
	"c.org", "c.org:80", "com", ".com", "[::1]:80", "a.com:80:80", "[::1", "::1",
	// hosts shorter than / as long as the longer wildcard suffixes, on a port no domain names
	"hello.com:30777", "x.a.com:81", "com:80"}

func c04VHostConfig(vhosts [][]string, routes func(i int) []v2.Router) *v2.RouterConfiguration {
	cfg := &v2.RouterConfiguration{}
	cfg.RouterConfigName = "verif_c04"
	for i, doms := range vhosts {
		cfg.VirtualHosts = append(cfg.VirtualHosts, v2.VirtualHost{
			Name:    fmt.Sprintf("vh%d", i),
			Domains: append([]string(nil), doms...),
			Routers: routes(i),
		})
	}
	return cfg
}

var (
	c04HdrH1   = c04Hdr{Name: "h", Value: "1"}
	c04HdrH2   = c04Hdr{Name: "h", Value: "2"}
	c04HdrHre  = c04Hdr{Name: "h", Value: "^[23]$", Regex: true}
	c04HdrGET  = c04Hdr{Name: "method", Value: "GET"}
	c04HdrSvc  = c04Hdr{Name: "service", Value: "svc"}
	c04HdrSvcW = c04Hdr{Name: "service", Value: ".*"}
	c04HdrSvcR = c04Hdr{Name: "service", Value: ".*", Regex: true}
)

// rule alphabet: the ten of the DESIGN entry plus a two-header conjunction, an
// or-chain and the regex spelling of the legacy wildcard.
var c04Rules = []c04Rule{
	{Kind: "path", Pattern: "/a"},
	{Kind: "prefix", Pattern: "/"},
	{Kind: "prefix", Pattern: "/a"},
	{Kind: "regex", Pattern: "^/a.*$"},
	{Kind: "prefix", Pattern: "/", Headers: []c04Hdr{c04HdrH1}},
	{Kind: "prefix", Pattern: "/", Headers: []c04Hdr{c04HdrHre}},
	{Kind: "prefix", Pattern: "/", Headers: []c04Hdr{c04HdrGET}},
	{Kind: "variable", Vars: []c04Var{{Name: types.VarMethod, Value: "POST", Model: "and"}, {Name: types.VarPath, Regex: "^/a.*$"}}},
	{Kind: "rpc", Headers: []c04Hdr{c04HdrH2}},
	{Kind: "rpc", Headers: []c04Hdr{c04HdrSvc}},
	{Kind: "rpc", Headers: []c04Hdr{c04HdrSvcW}},
	{Kind: "rpc", Headers: []c04Hdr{c04HdrSvcR}},
	{Kind: "prefix", Pattern: "/a", Headers: []c04Hdr{c04HdrH1, c04HdrSvc}},
	{Kind: "variable", Vars: []c04Var{{Name: types.VarMethod, Value: "POST", Model: "or"}, {Name: types.VarPath, Value: "/b"}}},
}

var c04Paths = []string{"/a", "/A", "/ab", "/b", "/"}
var c04Methods = []string{"GET", "POST"}
var c04HeaderSets = []map[string]string{
	nil,
	{"h": "1"},
	{"h": "2"},
	{"service": "svc"},
	{"h": "1", "service": "svc"},
	{"h": "2", "service": "other"},
}

func c04Requests() []c04Req {
	var out []c04Req
	for _, p := range c04Paths {
		for _, h := range c04HeaderSets {
			for _, m := range c04Methods {
				out = append(out, c04Req{Host: "a.com", Path: p, Method: m, Headers: h})
			}
		}
	}
	return out
}
