//go:build verif

package router

import (
	"context"
	"fmt"
	"net"
	"testing"
	"time"

	"mosn.io/api"
	v2 "mosn.io/mosn/pkg/config/v2"
	"mosn.io/mosn/pkg/types"
	"mosn.io/mosn/pkg/upstream/cluster"
	"mosn.io/mosn/pkg/verifrt/c15ref"
	"mosn.io/mosn/pkg/verifrt/vreport"
)

// C15, end-to-end part: the criteria a request carries are produced by the
// router (router.NewMetadataMatchCriteriaImpl — used for a route's
// metadata_match and for the downstream's merge with the router-meta
// variable). The in-package harness of pkg/upstream/cluster cannot import this
// package (import cycle) and hands over criteria in the api contract's order
// itself; here the REAL criteria object is handed to the REAL balancers built
// through the exported constructors, and the same reference decides. Inner
// balancer round-robin only (n+1 successive picks show every member whatever
// the start index, so no random source needs scripting from outside the
// package).

type c15rCase struct {
	Cfg  c15ref.Config  `json:"cfg"`
	Only *[]c15ref.Pair `json:"only,omitempty"` // replay: this criteria map only
	// wide scope (see c15ref "wide scope"): the criteria maps are derived from
	// the configuration; replay = configuration + criteria key set (every value
	// assignment of it re-asked)
	Wide     *c15ref.WideSpec `json:"wide,omitempty"`
	OnlyKeys *[]string        `json:"only_keys,omitempty"`
}

type c15rCtx struct{ mmc api.MetadataMatchCriteria }

func (c *c15rCtx) MetadataMatchCriteria() api.MetadataMatchCriteria { return c.mmc }
func (c *c15rCtx) DownstreamConnection() net.Conn                   { return nil }
func (c *c15rCtx) DownstreamHeaders() api.HeaderMap                 { return nil }
func (c *c15rCtx) DownstreamContext() context.Context               { return context.Background() }
func (c *c15rCtx) DownstreamCluster() types.ClusterInfo             { return nil }
func (c *c15rCtx) DownstreamRoute() api.Route                       { return nil }

type c15rEnv struct {
	infos map[string]types.ClusterInfo
	hosts map[string]types.Host
	crits [][]c15ref.Pair
	seenD map[string]bool
	seenO map[string]bool
	wideKey   string
	wideCrits [][]c15ref.Pair
}

func (e *c15rEnv) info(c *c15ref.Config) types.ClusterInfo {
	key := fmt.Sprint(c.Selectors, c.Policy, c.Default, c.Default == nil)
	if i, ok := e.infos[key]; ok {
		return i
	}
	cc := v2.Cluster{Name: "c15r", LbType: v2.LB_ROUNDROBIN}
	cc.LBSubSetConfig = v2.LBSubsetConfig{FallBackPolicy: uint8(c.Policy)}
	for _, s := range c.Selectors {
		cc.LBSubSetConfig.SubsetSelectors = append(cc.LBSubSetConfig.SubsetSelectors, append([]string{}, s...))
	}
	if c.Default != nil {
		cc.LBSubSetConfig.DefaultSubset = map[string]string{}
		for _, kv := range c.Default {
			cc.LBSubSetConfig.DefaultSubset[kv.K] = kv.V
		}
	}
	i := cluster.NewClusterInfo(cc)
	e.infos[key] = i
	return i
}

func (e *c15rEnv) host(pos int, meta []c15ref.Pair, info types.ClusterInfo) types.Host {
	key := fmt.Sprint(pos, meta)
	if h, ok := e.hosts[key]; ok {
		return h
	}
	var md api.Metadata
	if len(meta) > 0 {
		md = api.Metadata{}
		for _, kv := range meta {
			md[kv.K] = kv.V
		}
	}
	h := cluster.NewSimpleHost(v2.Host{HostConfig: v2.HostConfig{Address: fmt.Sprintf("10.15.1.%d:80", pos+1)}, MetaData: md}, info)
	e.hosts[key] = h
	return h
}

func c15rAsk(lb types.LoadBalancer, crit []c15ref.Pair, hosts []types.Host) (o c15ref.Obs, handed []c15ref.Pair) {
	defer func() {
		if r := recover(); r != nil {
			o.Panic = fmt.Sprint(r)
		}
	}()
	m := map[string]string{}
	for _, kv := range crit {
		m[kv.K] = kv.V
	}
	mmc := NewMetadataMatchCriteriaImpl(m)
	for _, x := range mmc.MetadataMatchCriteria() {
		handed = append(handed, c15ref.Pair{K: x.MetadataKeyName(), V: x.MetadataValue()})
	}
	ctx := &c15rCtx{mmc: mmc}
	o.HostNum = lb.HostNum(mmc)
	o.Exists = lb.IsExistsHosts(mmc)
	for d := 0; d <= len(hosts); d++ {
		h := lb.ChooseHost(ctx)
		o.Calls++
		if h == nil {
			o.Nils++
			continue
		}
		found := false
		for i, x := range hosts {
			if x == h {
				o.Mask |= 1 << uint(i)
				found = true
				break
			}
		}
		if !found {
			o.Mask |= 1 << 31
		}
	}
	return o, handed
}

func c15rCheck(e *c15rEnv, p *vreport.Part, c c15rCase) {
	info := e.info(&c.Cfg)
	var hosts []types.Host
	for i, m := range c.Cfg.Hosts {
		hosts = append(hosts, e.host(i, m, info))
	}
	hs := cluster.NewHostSet(hosts)
	var lbs [2]types.LoadBalancer
	var perr string
	func() {
		defer func() {
			if r := recover(); r != nil {
				perr = fmt.Sprint(r)
			}
		}()
		lbs[0] = cluster.NewSubsetLoadBalancer(info, hs)
		lbs[1] = cluster.NewSubsetLoadBalancerPreIndex(info, hs)
	}()
	if perr != "" {
		p.Violation("router-criteria | panic while building a subset balancer", perr, c)
		return
	}
	crits := e.crits
	switch {
	case c.Only != nil:
		crits = [][]c15ref.Pair{*c.Only}
	case c.Wide != nil:
		// derived from hosts, selectors and spec only: reused over the fallback alternatives
		wk := ""
		if c.OnlyKeys == nil {
			wk = fmt.Sprintf("%q|%q|%q|%v", c.Cfg.Hosts, c.Cfg.Selectors, c.Wide.P, c.Wide.AllKeySets)
		}
		if wk != "" && wk == e.wideKey {
			crits = e.wideCrits
		} else {
			crits = nil
			for _, pr := range c15ref.WideProbes(&c.Cfg, *c.Wide, c.OnlyKeys) {
				if pr.Sorted() { // a map has no order: the reversed-order probes are the same map
					crits = append(crits, pr.Crit)
				}
			}
			if c.OnlyKeys == nil {
				e.wideKey, e.wideCrits = wk, crits
			}
		}
		if c.OnlyKeys == nil {
			p.EvalN(len(crits) - 1)
		}
	default:
		p.EvalN(len(crits) - 1)
	}
	for _, crit := range crits {
		crit := crit
		only := func() c15rCase {
			cq := c
			if c.Wide != nil {
				ks := c15ref.CritKeys(crit)
				cq.OnlyKeys = &ks
				return cq
			}
			cq.Only = &crit
			return cq
		}
		exp := c15ref.Reference(&c.Cfg, crit)
		if dk := c15ref.ClassCode(&c.Cfg, exp); !e.seenD[dk] {
			e.seenD[dk] = true
			p.Distinct(dk)
		}
		for bi, lb := range lbs {
			o, handed := c15rAsk(lb, crit, hosts)
			b := "filtering builder"
			if bi == 1 {
				b = "pre-index builder"
			}
			if ok := fmt.Sprint(exp.Class, o.HostNum, o.Exists, o.Mask, o.Nils > 0); !e.seenO[ok] {
				e.seenO[ok] = true
				p.Outcome(ok)
			}
			// the most severe deviation only; the builder goes into the detail (the
			// two builders are compared with each other by the in-package part)
			// wide scope: every deviation, not only the most severe one (see the
			// in-package part: keeps the replay of a key independent of map order)
			ps := c15ref.Judge(exp, o, true)
			if len(ps) > 1 && c.Wide == nil {
				ps = ps[:1]
			}
			for _, pb := range ps {
				p.Violation(fmt.Sprintf("router-criteria | %s | %s", exp.Class, pb.What),
					fmt.Sprintf("%s: route metadata_match=%v, criteria handed to the balancer by router.NewMetadataMatchCriteriaImpl: %v (fallback reason: %s; key sets: %s): %s; observed %s; hosts=%v selectors=%v policy=%d default=%v",
						b, crit, handed, exp.Reason, exp.Rel, pb.Detail, o, c.Cfg.Hosts, c.Cfg.Selectors, c.Cfg.Policy, c.Cfg.Default), only())
			}
		}
	}
}

func TestVerifC15RouterCriteria(t *testing.T) {
	p := vreport.Begin("C15", "router-criteria-end-to-end", 10*time.Minute)
	keys, values := []string{"a", "b"}, []string{"1", "2"}
	maxHosts := vreport.Pick(2, 3)
	shapes := c15ref.Shapes(keys, values)
	sels := c15ref.SelectorLists([][]string{{"a"}, {"b"}, {"a", "b"}, {"b", "a"}}, 2)
	fbs := c15ref.Fallbacks([][]c15ref.Pair{{}, {{K: "a", V: "1"}}, {{K: "a", V: "1"}, {K: "b", V: "2"}}, {{K: "b", V: "9"}}}, false)
	e := &c15rEnv{infos: map[string]types.ClusterInfo{}, hosts: map[string]types.Host{}, seenD: map[string]bool{}, seenO: map[string]bool{}}
	for _, pr := range c15ref.Criteria([]string{"a", "b", "z"}, []string{"1", "2", "9"}, false) {
		e.crits = append(e.crits, pr.Crit)
	}
	si, sn := vreport.Shard()
	complete := vreport.Run(p, func(yield func(c15rCase) bool) {
		idx := 0
		c15ref.Multisets(len(shapes), maxHosts, func(ms []int) bool {
			hosts := [][]c15ref.Pair{}
			for _, s := range ms {
				hosts = append(hosts, shapes[s])
			}
			for _, sel := range sels {
				for _, fb := range fbs {
					idx++
					if idx%sn != si {
						continue
					}
					if !yield(c15rCase{Cfg: c15ref.Config{Hosts: hosts, Selectors: sel, Policy: fb.Policy, Default: fb.Default}}) {
						return false
					}
				}
			}
			return true
		})
	}, func(p *vreport.Part, c c15rCase) {
		c15rCheck(e, p, c)
		if p.WantSample() {
			p.Sample(c)
		}
	})
	p.End(complete,
		fmt.Sprintf("host metadata keys %v x values %v incl. absent; all host multisets of size <=%d; selectors: all lists of 1..2 different entries of [[a] [b] [a b] [b a]]; fallback {none, any-endpoint, default-subset {} / {a:1} / {a:1,b:2} / {b:9}}; criteria: every map {a,b,z} -> {absent,1,2,9} turned into criteria by router.NewMetadataMatchCriteriaImpl; inner balancer round-robin; all hosts healthy", keys, values, maxHosts),
		"complete cartesian product; each (configuration, criteria map) probes HostNum, IsExistsHosts and n+1 successive ChooseHost on both builders through exported API only and is compared with the reference written from the statement; distinct/outcomes as in the in-package part")
}

// Wide scope through the router's criteria: selectors of every size 1..8 over
// order-trap key names (upper/lower case, prefixes, "k10" < "k2"), the route's
// metadata_match map turned into criteria by router.NewMetadataMatchCriteriaImpl
// (map iteration order -> sort): the balancer's answer must not depend on the
// order the map was written / iterated in.
func TestVerifC15RouterCriteriaWide(t *testing.T) {
	p := vreport.Begin("C15", "router-criteria-wide-selectors-1to8", 10*time.Minute)
	b := c15ref.WideBound{Sizes: []int{1, 2, 3, 4, 5, 6, 7, 8}, Bases: []string{"prefix"}, Spellings: []string{"rotated"},
		SingleVals: 3, PairVals: 2, Extras: []bool{true}}
	if vreport.Thorough() {
		b.Bases = []string{"prefix", "suffix"}
		b.Spellings = []string{"sorted", "rotated"}
	}
	e := &c15rEnv{infos: map[string]types.ClusterInfo{}, hosts: map[string]types.Host{}, seenD: map[string]bool{}, seenO: map[string]bool{}}
	si, sn := vreport.Shard()
	complete := vreport.Run(p, func(yield func(c15rCase) bool) {
		idx := 0
		each := func(cfg c15ref.Config, spec c15ref.WideSpec) bool {
			for _, s := range cfg.Selectors {
				if len(s) == 0 {
					return true // empty selector entry: building is the in-package part's business (one defect, one key)
				}
			}
			idx++
			if idx%sn != si {
				return true
			}
			spec2 := spec
			return yield(c15rCase{Cfg: cfg, Wide: &spec2})
		}
		if c15ref.WideConfigs(b, each) {
			c15ref.ShortcutConfigs(each)
		}
	}, func(p *vreport.Part, c c15rCase) {
		c15rCheck(e, p, c)
		if p.WantSample() {
			s := c
			if s.OnlyKeys == nil && s.Wide != nil && s.Wide.P != nil {
				ks := append([]string{}, s.Wide.P...)
				s.OnlyKeys = &ks
			}
			p.Sample(s)
		}
	})
	p.End(complete, b.String()+" (sorted criteria only: the criteria are a map here); plus the hand-written shortcut configurations of the in-package part (except the one with an empty selector entry); criteria maps turned into criteria by router.NewMetadataMatchCriteriaImpl; inner balancer round-robin; all hosts healthy",
		"complete product; each (configuration, criteria map) probes HostNum, IsExistsHosts and n+1 successive ChooseHost on both builders through exported API only and is compared with the reference written from the statement; a violation's replayable case is the configuration + the criteria key set")
}
