//go:build verif

package router

import (
	"context"
	"fmt"
	"reflect"
	"strings"
	"sync"
	"testing"
	"time"

	"mosn.io/api"
	v2 "mosn.io/mosn/pkg/config/v2"
	"mosn.io/mosn/pkg/types"
	"mosn.io/mosn/pkg/upstream/cluster"
	"mosn.io/mosn/pkg/verifrt/vreport"
	"mosn.io/pkg/variable"
)

// C04 part 3: the route handler (pkg/router/handler.go), i.e. the path a request
// of the proxy really takes (pkg/proxy/downstream.go matchRoute):
//
//	routers := routersWrapper.GetRouters()
//	snapshot, route = router.GetMakeHandlerFunc(cfg.RouterHandlerName).DoRouteHandler(ctx, headers, routers, clusterManager)
//
// What this tree documents and does: GetMakeHandlerFunc(name) is the factory
// registered under name, the default one otherwise ("if name is matched failed,
// use default factory"). The default factory asks routers.MatchRoute once - the
// first matching route - and wraps it in a handler that is available whenever a
// route was found; its snapshot is clusterManager.GetClusterSnapshot(<cluster
// name of that route>), nil when the cluster does not exist. There is NO chain
// in this version: the default handler never moves on to a later matching route,
// whatever the state of the first one's cluster (the proxy answers "no route" /
// "no healthy upstream" itself, downstream.go chooseHost). DoRouteHandler returns
// (snapshot, handler.Route()) iff the handler reports HandlerAvailable, (nil,
// nil) otherwise ("IsAvailable returns HandlerStatus represents the handler will
// be used/not used/stop next handler check").
//
// Checked, against the reference model of zz_verif_C04_ref_test.go:
//   - default handler (names "", "default", an unregistered name): the route is
//     the first rule in configuration order that holds - independent of whether
//     the clusters of this or of any other route exist / have hosts -, nil iff no
//     rule holds; the snapshot is nil iff that route's cluster is missing and
//     otherwise the snapshot of exactly that cluster (never another route's);
//   - an extension handler registered through RegisterMakeHandler that walks
//     routers.MatchAllRoutes and accepts the first route whose cluster exists and
//     has hosts (the use the RouteHandler interface is documented for: "an
//     external check handler for a route"): the result is the first rule in
//     configuration order that holds AND is acceptable, never a later one while an
//     earlier acceptable one exists, never a non-matching one, (nil, nil) if none;
//   - a handler reporting HandlerNotAvailable: (nil, nil);
//   - a factory returning no handler: (nil, nil).
// Enumerated, not compared beyond "nothing else than (nil, nil) or the handler's
// own route": a handler reporting HandlerStop (the comment does not say whether
// a stopping handler is used).
//
// The cluster manager is the real one (pkg/upstream/cluster) behind a recorder.

const (
	c04AvOK      = "ok"      // cluster exists, one host
	c04AvEmpty   = "empty"   // cluster exists, no hosts
	c04AvMissing = "missing" // cluster does not exist
)

var c04AvStates = []string{c04AvOK, c04AvEmpty, c04AvMissing}

type c04HandlerCase struct {
	Rules   []c04Rule `json:"rules"`
	Avail   []string  `json:"avail"`             // per rule: state of the cluster it routes to
	Handler string    `json:"handler,omitempty"` // with Req: one handler only
	Req     *c04Req   `json:"req,omitempty"`
}

func c04HClusterName(k int, state string) string { return fmt.Sprintf("r%d_%s", k, state) }

// c04CM: the real cluster manager; records which clusters were asked for.
type c04CM struct {
	types.ClusterManager
	asked []string
}

func (m *c04CM) GetClusterSnapshot(ctx context.Context, name string) types.ClusterSnapshot {
	m.asked = append(m.asked, name)
	return m.ClusterManager.GetClusterSnapshot(ctx, name)
}

var (
	c04HOnce sync.Once
	c04HCM   *c04CM
)

const (
	c04HFirstAvail = "verif-c04-first-available"
	c04HNotAvail   = "verif-c04-not-available"
	c04HStop       = "verif-c04-stop"
	c04HNil        = "verif-c04-nil"
	c04HUnknown    = "verif-c04-never-registered"
)

// extension handler: first matching route whose cluster exists and has hosts
type c04FirstAvailHandler struct {
	routes []api.Route
	route  api.Route
}

func (h *c04FirstAvailHandler) IsAvailable(ctx context.Context, cm types.ClusterManager) (types.ClusterSnapshot, types.HandlerStatus) {
	for _, r := range h.routes {
		snap := cm.GetClusterSnapshot(ctx, r.RouteRule().ClusterName(ctx))
		if snap != nil && !reflect.ValueOf(snap).IsNil() && snap.IsExistsHosts(nil) {
			h.route = r
			return snap, types.HandlerAvailable
		}
	}
	return nil, types.HandlerNotAvailable
}
func (h *c04FirstAvailHandler) Route() api.Route { return h.route }

// handler with a fixed status around the first matching route
type c04FixedHandler struct {
	route  api.Route
	status types.HandlerStatus
}

func (h *c04FixedHandler) IsAvailable(ctx context.Context, cm types.ClusterManager) (types.ClusterSnapshot, types.HandlerStatus) {
	if h.route == nil {
		return nil, h.status
	}
	return cm.GetClusterSnapshot(ctx, h.route.RouteRule().ClusterName(ctx)), h.status
}
func (h *c04FixedHandler) Route() api.Route { return h.route }

func c04HandlerSetup(maxRules int) *c04CM {
	c04HOnce.Do(func() {
		var clusters []v2.Cluster
		hosts := map[string][]v2.Host{}
		for k := 0; k < 4; k++ {
			for _, st := range []string{c04AvOK, c04AvEmpty} {
				name := c04HClusterName(k, st)
				clusters = append(clusters, v2.Cluster{Name: name, ClusterType: v2.SIMPLE_CLUSTER, LbType: v2.LB_RANDOM})
				if st == c04AvOK {
					hosts[name] = []v2.Host{{HostConfig: v2.HostConfig{Address: fmt.Sprintf("127.0.0.1:%d", 10000+k)}}}
				}
			}
		}
		c04HCM = &c04CM{ClusterManager: cluster.NewClusterManagerSingleton(clusters, hosts, nil)}
		RegisterMakeHandler(c04HFirstAvail, func(ctx context.Context, headers api.HeaderMap, routers types.Routers) types.RouteHandler {
			return &c04FirstAvailHandler{routes: routers.MatchAllRoutes(ctx, headers)}
		}, false)
		RegisterMakeHandler(c04HNotAvail, func(ctx context.Context, headers api.HeaderMap, routers types.Routers) types.RouteHandler {
			return &c04FixedHandler{route: routers.MatchRoute(ctx, headers), status: types.HandlerNotAvailable}
		}, false)
		RegisterMakeHandler(c04HStop, func(ctx context.Context, headers api.HeaderMap, routers types.Routers) types.RouteHandler {
			return &c04FixedHandler{route: routers.MatchRoute(ctx, headers), status: types.HandlerStop}
		}, false)
		RegisterMakeHandler(c04HNil, func(ctx context.Context, headers api.HeaderMap, routers types.Routers) types.RouteHandler {
			return nil
		}, false)
	})
	if maxRules > 4 {
		panic("C04 harness: clusters exist for 4 rule positions only")
	}
	return c04HCM
}

var c04HandlerNames = []string{"", types.DefaultRouteHandler, c04HUnknown, c04HFirstAvail, c04HNotAvail, c04HStop, c04HNil}

// c04DoRoute: the proxy's call. Returns the index of the returned route (-1:
// none), the name of the returned snapshot's cluster ("" = nil snapshot), the
// number of hosts of the snapshot.
func c04DoRoute(handler string, routers types.Routers, cm *c04CM, q c04Req) (idx int, snapName string, hosts int, asked []string, panicked string) {
	defer func() {
		if r := recover(); r != nil {
			panicked = fmt.Sprint(r)
		}
	}()
	ctx, h := c04Ctx(q)
	_ = variable.Set(ctx, types.VariableListenerName, "verif_c04_listener")
	cm.asked = nil
	snap, route := GetMakeHandlerFunc(handler).DoRouteHandler(ctx, h, routers, cm)
	asked = append([]string(nil), cm.asked...)
	idx = -1
	if route != nil && !reflect.ValueOf(route).IsNil() {
		idx = -2
		fmt.Sscanf(route.RouteRule().ClusterName(ctx), "r%d_", &idx)
	}
	if snap != nil && !reflect.ValueOf(snap).IsNil() {
		snapName = snap.ClusterInfo().Name()
		hosts = snap.HostNum(nil)
	}
	return
}

func c04HandlerRules(thorough bool) []c04Rule {
	rules := []c04Rule{
		{Kind: "prefix", Pattern: "/"},
		{Kind: "path", Pattern: "/a"},
		{Kind: "prefix", Pattern: "/b"},
		{Kind: "dsl", Dsl: []c04Dsl{c04DHdr1}},
		{Kind: "variable", Vars: []c04Var{{Name: types.VarMethod, Value: "POST"}}},
	}
	if thorough {
		rules = append(rules,
			c04Rule{Kind: "rpc", Headers: []c04Hdr{c04HdrH2}},
			c04Rule{Kind: "regex", Pattern: "^/a.*$"},
			c04Rule{Kind: "prefix", Pattern: "/", Headers: []c04Hdr{c04HdrGET}},
		)
	}
	return rules
}

func c04HandlerRequests() []c04Req {
	var out []c04Req
	for _, p := range []string{"/a", "/b"} {
		for _, m := range c04Methods {
			for _, h := range []map[string]string{nil, {"h": "1"}, {"h": "2"}} {
				out = append(out, c04Req{Host: "a.com", Path: p, Method: m, Headers: h})
			}
		}
	}
	return out
}

func TestVerifC04Handler(t *testing.T) {
	c04Quiet()
	p := vreport.Begin("C04", "route-handler", time.Duration(vreport.Pick(3, 20))*time.Minute)
	maxLen := vreport.Pick(3, 3)
	alpha := c04HandlerRules(vreport.Thorough())
	reqs := c04HandlerRequests()
	cm := c04HandlerSetup(maxLen)
	rm := GetRoutersMangerInstance()
	const cfgName = "verif_c04_handler"
	var wrapper types.RouterWrapper // obtained once, like the proxy does, and kept across updates
	complete := vreport.Run(p,
		func(yield func(c04HandlerCase) bool) {
			c04GenRuleLists(alpha, maxLen, func(rs []c04Rule) bool {
				av := make([]string, len(rs))
				var rec func(i int) bool
				rec = func(i int) bool {
					if i == len(rs) {
						return yield(c04HandlerCase{Rules: rs, Avail: append([]string(nil), av...)})
					}
					for _, s := range c04AvStates {
						av[i] = s
						if !rec(i + 1) {
							return false
						}
					}
					return true
				}
				return rec(0)
			})
		},
		func(p *vreport.Part, c c04HandlerCase) {
			if len(c.Avail) != len(c.Rules) {
				return
			}
			cfg := c04VHostConfig([][]string{{"*"}}, func(int) []v2.Router {
				var out []v2.Router
				for k, r := range c.Rules {
					out = append(out, c04Router(r, c04HClusterName(k, c.Avail[k])))
				}
				return out
			})
			cfg.RouterConfigName = cfgName
			lkey := c04RulesKey(c.Rules)
			if err := rm.AddOrUpdateRouters(cfg); err != nil {
				p.Violation("route-config: valid rule list rejected", fmt.Sprintf("rules [%s]: error %v", lkey, err), c)
				return
			}
			if wrapper == nil {
				wrapper = rm.GetRouterWrapperByName(cfgName)
			}
			rq, names := reqs, c04HandlerNames
			if c.Req != nil {
				rq, names = []c04Req{*c.Req}, []string{c.Handler}
			} else {
				p.EvalN(len(rq)*len(names) - 1)
			}
			for _, q := range rq {
				q := q
				_, verdict := c04RefRoute(c.Rules, q)
				decided := true
				var matching []int
				for k, v := range verdict {
					if v == c04Unknown {
						decided = false
					}
					if v == c04Yes {
						matching = append(matching, k)
					}
				}
				if !decided {
					p.Count("lookups_not_fully_decided_by_statement", len(names))
					continue
				}
				first, firstOK := -1, -1
				if len(matching) > 0 {
					first = matching[0]
				}
				for _, k := range matching {
					if c.Avail[k] == c04AvOK {
						firstOK = k
						break
					}
				}
				for _, hn := range names {
					cc := c04HandlerCase{Rules: c.Rules, Avail: c.Avail, Handler: hn, Req: &q}
					routers := wrapper.GetRouters()
					got, snapName, hosts, asked, pan := c04DoRoute(hn, routers, cm, q)
					kind := "default handler"
					want := first
					switch hn {
					case c04HFirstAvail:
						kind, want = "first-available extension handler", firstOK
					case c04HNotAvail:
						kind, want = "handler reporting not-available", -1
					case c04HStop:
						kind = "handler reporting stop"
					case c04HNil:
						kind, want = "factory without handler", -1
					}
					var pat []string
					for k := range c.Rules {
						m := "-"
						if verdict[k] == c04Yes {
							m = "M"
						}
						pat = append(pat, m+c.Avail[k])
					}
					p.Distinct(kind + "|" + strings.Join(pat, ","))
					ctxt := fmt.Sprintf("rules [%s] clusters %v request %s handler %q: reference verdicts %v", lkey, c.Avail, q, hn, verdict)
					if pan != "" {
						p.Outcome(kind + ": panic")
						p.Violation("handler: DoRouteHandler panics ("+kind+")", ctxt+"; panic "+pan, cc)
						continue
					}
					p.Outcome(fmt.Sprintf("%s: route=%v snapshot=%v", kind, got >= 0, snapName != ""))
					if p.WantSample() {
						p.Sample(map[string]interface{}{"rules": lkey, "clusters": c.Avail, "request": q.String(), "handler": hn, "route": got, "snapshot": snapName, "asked": asked})
					}
					if hn == c04HStop {
						// not decided whether a stopping handler is used: (nil, nil) or its own route
						if !(got == -1 && snapName == "") && got != first {
							p.Violation("handler: a route that is not the handler's is returned ("+kind+")", fmt.Sprintf("%s; got route %d snapshot %q", ctxt, got, snapName), cc)
						}
						continue
					}
					if got != want {
						what := ""
						switch {
						case got >= 0 && (got >= len(c.Rules) || verdict[got] != c04Yes):
							what = "a route that does not match is returned"
						case got == -2:
							what = "an unknown route is returned"
						case want == -1:
							what = "a route is returned although none is acceptable"
						case got == -1:
							what = "no route is returned although a matching route is acceptable (its cluster: " + c.Avail[want] + ")"
						case got > want:
							what = "a later route is returned although an earlier matching one is acceptable (its cluster: " + c.Avail[want] + ")"
						default:
							what = "an earlier route is returned than the first acceptable one"
						}
						p.Violation("handler: "+what+" ("+kind+")", fmt.Sprintf("%s; expected route %d, got route %d snapshot %q (asked for %v)", ctxt, want, got, snapName, asked), cc)
						continue
					}
					// snapshot: of the selected route's cluster, nil iff it does not exist
					wantSnap, wantHosts := "", 0
					if want >= 0 && c.Avail[want] != c04AvMissing {
						wantSnap = c04HClusterName(want, c.Avail[want])
						if c.Avail[want] == c04AvOK {
							wantHosts = 1
						}
					}
					if snapName != wantSnap || hosts != wantHosts {
						what := "the snapshot is not that of the selected route's cluster"
						switch {
						case wantSnap == "":
							what = "a snapshot is returned although the selected route's cluster does not exist / no route is returned"
						case snapName == "":
							what = "no snapshot is returned although the selected route's cluster exists"
						}
						p.Violation("handler: "+what+" ("+kind+")", fmt.Sprintf("%s; route %d, expected snapshot %q with %d hosts, got %q with %d hosts (asked for %v)", ctxt, got, wantSnap, wantHosts, snapName, hosts, asked), cc)
					}
				}
			}
		})
	var names []string
	for _, r := range alpha {
		names = append(names, r.String())
	}
	p.End(complete,
		fmt.Sprintf("every ordered list of <=%d rules (with repetition) over %d rules [%s] x every assignment of {cluster with a host, cluster without hosts, cluster missing} to the rules' clusters x %d requests (paths [/a /b] x methods %v x header h [absent 1 2]) x handler names %q; router configuration installed through the real RoutersManager (one RouterWrapper kept across all updates), real cluster manager", maxLen, len(alpha), strings.Join(names, " | "), len(reqs), c04Methods, c04HandlerNames),
		"cartesian product through GetMakeHandlerFunc(name).DoRouteHandler, the proxy's entry point; default handler (also for an unregistered name): route = first rule that holds whatever the cluster states, snapshot = that route's cluster (nil iff missing); first-available extension handler: first rule that holds and whose cluster has a host; not-available / nil handler: (nil, nil); stop handler: enumerated, only 'no foreign route' compared; distinct = (handler kind, per-rule match x cluster-state pattern); outcome = (handler kind, route?, snapshot?)")
}
