//go:build verif

package router

import (
	"fmt"
	"sort"
	"strings"
	"testing"
	"time"

	"mosn.io/mosn/pkg/verifrt/vreport"
	"mosn.io/pkg/variable"
)

// C17 router seam, part 2b: the VALUE alphabet of header additions.
//
// The 4^3 grid of part 2 (zz_verif_C17_headers_test.go) gives every addition a
// one-letter static value. Here each of route / virtual host / router level
// carries {nothing, add append=true, add append=false} x a value CLASS:
//
//	empty         the configured value is ""
//	plain         a static value (r / v / g by level)
//	blanks        a static value with a leading and a trailing blank
//	variable      "%verif_c17_value%", a registered variable that for this
//	              request is {not set, set to "", set to "w"}
//	unregistered  "%verif_c17_nosuch%" (no such variable)      - enumerated, not compared
//	embedded      "r-%verif_c17_value%" (variable inside text) - enumerated, not compared
//	percent       "%%" (thorough)                               - enumerated, not compared
//
// and the message carries the key not at all, with a value, or with an empty
// value. (thorough: also 'remove' at each level, every route kind.)
//
// Reference (statement: "request and response header additions (append or
// overwrite) ... at route, virtual-host and router level in that order"): the
// EVALUATED value of an addition is the configured text, or for "%name%" of a
// registered variable the variable's value for this request ("" when it has
// none). Overwrite: afterwards the header's value IS the evaluated value -
// whatever the message carried before is gone, also when the evaluated value
// is empty. Append: the evaluated value follows the values already there.
//
// Compared: the list of NON-EMPTY comma-separated members of the key's values,
// blanks around a member trimmed, in order. So the statement's silent spots are
// all accepted: an empty header line vs no header line after an overwrite with
// "", "v," vs "v" after appending "" (and ",v" vs "v" when appending to an empty
// value), blanks kept or trimmed. What is demanded is only: every configured
// non-empty value is there, in level order, and nothing survives an overwrite.

const c17ValueVar = "verif_c17_value"

func init() {
	// must exist before a configuration is built: "%name%" becomes a variable
	// formatter only for a registered variable; and before the first variable
	// context is made (indexed variable)
	_ = variable.Register(variable.NewStringVariable(c17ValueVar, nil, nil, variable.DefaultStringSetter, 0))
}

type c17ValMut struct {
	Op    string `json:"op,omitempty"` // "" | "append" | "overwrite" | "remove"
	Class string `json:"class,omitempty"`
}

type c17ValCase struct {
	Dir     string       `json:"dir"`
	Kind    string       `json:"kind"`
	Carrier string       `json:"carrier"`
	Initial string       `json:"initial"` // "absent" | "value" (x-k: 0) | "empty" (x-k:)
	Var     string       `json:"var"`     // "unset" | "empty" | "set"
	Muts    [3]c17ValMut `json:"muts"`
}

// c17ValText: the configured value text of a class at a level.
func c17ValText(class string, level int) string {
	l := c17LevelValues[level]
	switch class {
	case "empty":
		return ""
	case "plain":
		return l
	case "blanks":
		return " " + l + " "
	case "variable":
		return "%" + c17ValueVar + "%"
	case "unregistered":
		return "%verif_c17_nosuch%"
	case "embedded":
		return l + "-%" + c17ValueVar + "%"
	case "percent":
		return "%%"
	}
	panic("c17ValText: " + class)
}

// c17ValEval: the evaluated value (reference), and whether the statement's
// reading decides it.
func c17ValEval(class string, level int, varState string) (string, bool) {
	switch class {
	case "empty", "plain", "blanks":
		return c17ValText(class, level), true
	case "variable":
		if varState == "set" {
			return "w", true
		}
		return "", true
	}
	// not decided; the literal text is used only to name deviations
	return c17ValText(class, level), false
}

// c17ValClassName: the class as it appears in finding keys.
func c17ValClassName(class, varState string) string {
	switch class {
	case "empty":
		return "empty static value"
	case "plain":
		return "static value"
	case "blanks":
		return "static value with blanks around"
	case "variable":
		switch varState {
		case "unset":
			return "%variable% not set for the request"
		case "empty":
			return "%variable% set to the empty string"
		}
		return "%variable% set"
	}
	return class
}

func (m c17ValMut) describe(varState string) string {
	switch m.Op {
	case "":
		return "-"
	case "remove":
		return "remove"
	case "append":
		return "add append=true, " + c17ValClassName(m.Class, varState)
	}
	return "add append=false, " + c17ValClassName(m.Class, varState)
}

func c17ValMutsString(m [3]c17ValMut, varState string) string {
	return "route: " + m[0].describe(varState) + "; virtual host: " + m[1].describe(varState) + "; router: " + m[2].describe(varState)
}

// c17ValRef applies the three levels in order to the value list.
func c17ValRef(initial []string, muts [3]c17ValMut, varState string) (vals []string, decided bool) {
	vals = append([]string(nil), initial...)
	decided = true
	for l, m := range muts {
		switch m.Op {
		case "append":
			v, ok := c17ValEval(m.Class, l, varState)
			if !ok {
				decided = false
			}
			vals = append(vals, v)
		case "overwrite":
			v, ok := c17ValEval(m.Class, l, varState)
			vals = []string{v}
			decided = ok
		case "remove":
			vals = nil
			decided = true
		}
	}
	return
}

// c17ValMembers: the non-empty comma-separated members, trimmed, in order.
func c17ValMembers(vals []string) []string {
	var out []string
	for _, v := range vals {
		for _, m := range strings.Split(v, ",") {
			if m = strings.TrimSpace(m); m != "" {
				out = append(out, m)
			}
		}
	}
	return out
}

func c17ValInitial(s string) []string {
	switch s {
	case "value":
		return []string{"0"}
	case "empty":
		return []string{""}
	}
	return nil
}

func c17ValUsesVar(m [3]c17ValMut) bool {
	for _, x := range m {
		if x.Op != "" && x.Op != "remove" && (x.Class == "variable" || x.Class == "embedded") {
			return true
		}
	}
	return false
}

func c17ValKinds() []string {
	if vreport.Thorough() {
		return c17Kinds
	}
	// one route kind of each family of FinalizeRequestHeaders implementations
	// (http_rule.go, rpc_rule.go, base_rule.go via variable_rule.go); the header parser is shared
	return []string{"prefix:/", "rpc-headers", "variable"}
}

func c17ValClasses() []string {
	c := []string{"empty", "plain", "blanks", "variable", "unregistered", "embedded"}
	if vreport.Thorough() {
		c = append(c, "percent")
	}
	return c
}

func c17ValAlternatives() []c17ValMut {
	alts := []c17ValMut{{}}
	for _, op := range []string{"append", "overwrite"} {
		for _, cl := range c17ValClasses() {
			alts = append(alts, c17ValMut{Op: op, Class: cl})
		}
	}
	if vreport.Thorough() {
		alts = append(alts, c17ValMut{Op: "remove"})
	}
	return alts
}

func c17GenValCases(dir string, yield func(c17ValCase) bool) {
	alts := c17ValAlternatives()
	for _, kind := range c17ValKinds() {
		for _, carrier := range []string{"http1", "common"} {
			for _, ini := range []string{"absent", "value", "empty"} {
				for _, a0 := range alts {
					for _, a1 := range alts {
						for _, a2 := range alts {
							muts := [3]c17ValMut{a0, a1, a2}
							states := []string{"unset"}
							if c17ValUsesVar(muts) {
								states = []string{"unset", "empty", "set"}
							}
							for _, vs := range states {
								if !yield(c17ValCase{Dir: dir, Kind: kind, Carrier: carrier, Initial: ini, Var: vs, Muts: muts}) {
									return
								}
							}
						}
					}
				}
			}
		}
	}
}

const c17ValBound = "route kinds (quick: prefix, rpc-headers, variable; thorough: all seven) x carrier {http1 header object, protocol.CommonHeader} x message carries x-k {not, with value 0, with an empty value} x (route, virtual host, router) each in {none, add append=true, add append=false} x value class {empty static, static, static with blanks around, %registered variable%, %unregistered%, text with an embedded %variable%; thorough: '%%'} (thorough: also remove) x the variable for this request {not set, set to \"\", set to w} when a level names it; the message also carries x-other, for which nothing is configured"

const c17ValRule = "cartesian product. Real: json -> NewRouters -> MatchRoute -> RouteRule().Finalize{Request,Response}Headers as the proxy calls them, on a variable context in which the harness variable has the case's state. Reference: route, then virtual host, then router level on the value list; the evaluated value of an addition is the configured text, for %name% of a registered variable the variable's value for the request (empty when it has none); overwrite replaces all values by the evaluated value - also by an empty one -, append adds it after the existing ones. Compared: the NON-EMPTY comma-separated members of the key's values, blanks trimmed, in order (accepted both ways: empty header line vs no line after an overwrite with an empty value, 'v,' vs 'v' after an append of an empty value, blanks kept vs trimmed); x-other untouched. NOT compared (the statement does not define the value syntax): a level whose value is %unregistered%, text with an embedded %variable%, or '%%' - until a later level overwrites or removes. distinct = (direction, route kind, carrier, initial, variable state, three mutations); outcome = resulting value list"

func TestVerifC17RequestHeaderValues(t *testing.T) {
	c17Quiet()
	p := vreport.Begin("C17", "router-request-header-values", 8*time.Minute)
	complete := vreport.Run(p, func(yield func(c17ValCase) bool) { c17GenValCases("request", yield) }, c17CheckHeaderValues)
	p.End(complete, c17ValBound, c17ValRule)
}

func TestVerifC17ResponseHeaderValues(t *testing.T) {
	c17Quiet()
	p := vreport.Begin("C17", "router-response-header-values", 8*time.Minute)
	complete := vreport.Run(p, func(yield func(c17ValCase) bool) { c17GenValCases("response", yield) }, c17CheckHeaderValues)
	p.End(complete, c17ValBound, c17ValRule)
}

// c17ValDiagnose names the deviation by the simplest wrong model that
// reproduces the observed members.
func c17ValDiagnose(c c17ValCase, got []string) (what string, generic bool) {
	ini := c17ValInitial(c.Initial)
	same := func(m [3]c17ValMut) bool {
		v, _ := c17ValRef(ini, m, c.Var)
		return strings.Join(c17ValMembers(v), "\x00") == strings.Join(got, "\x00")
	}
	var configured []int
	for l, m := range c.Muts {
		if m.Op != "" {
			configured = append(configured, l)
		}
	}
	// one level's mutation not applied
	for _, l := range configured {
		m := c.Muts
		m[l] = c17ValMut{}
		if same(m) {
			return fmt.Sprintf("%s-level %s: not applied (the message keeps what it carried before this level)", c17LevelNames[l], c.Muts[l].describe(c.Var)), false
		}
	}
	// several levels' mutations not applied
	for mask := 1; mask < 8; mask++ {
		m := c.Muts
		var dropped []string
		n := 0
		for l := 0; l < 3; l++ {
			if mask&(1<<l) != 0 {
				if m[l].Op == "" {
					n = -1
					break
				}
				dropped = append(dropped, m[l].describe(c.Var))
				m[l] = c17ValMut{}
				n++
			}
		}
		if n < 2 {
			continue
		}
		if same(m) {
			sort.Strings(dropped)
			uniq := dropped[:1]
			for _, d := range dropped[1:] {
				if d != uniq[len(uniq)-1] {
					uniq = append(uniq, d)
				}
			}
			return "mutations of several levels not applied (" + strings.Join(uniq, " / ") + ")", false
		}
	}
	// one level's addition puts another value than the evaluated one (levels that name the variable are tried first)
	byVar := append([]int(nil), configured...)
	sort.SliceStable(byVar, func(i, j int) bool {
		return c.Muts[byVar[i]].Class == "variable" && c.Muts[byVar[j]].Class != "variable"
	})
	for _, l := range byVar {
		if c.Muts[l].Op == "remove" {
			continue
		}
		for _, x := range got {
			vals := append([]string(nil), ini...)
			for k, m := range c.Muts {
				v := x
				if k != l && (m.Op == "append" || m.Op == "overwrite") {
					v, _ = c17ValEval(m.Class, k, c.Var)
				}
				switch m.Op {
				case "append":
					vals = append(vals, v)
				case "overwrite":
					vals = []string{v}
				case "remove":
					vals = nil
				}
			}
			if strings.Join(c17ValMembers(vals), "\x00") == strings.Join(got, "\x00") {
				return fmt.Sprintf("%s-level %s: the header gets another value than the evaluated one", c17LevelNames[l], c.Muts[l].describe(c.Var)), false
			}
		}
	}
	swap := func(from, to string) [3]c17ValMut {
		m := c.Muts
		for i := range m {
			if m[i].Op == from {
				m[i].Op = to
			}
		}
		return m
	}
	if same(swap("overwrite", "append")) {
		return "append=false behaves as append", true
	}
	if same(swap("append", "overwrite")) {
		return "append=true behaves as overwrite", true
	}
	// reversed level order (the level letters follow the mutation, so by hand)
	{
		vals := append([]string(nil), ini...)
		for _, l := range []int{2, 1, 0} {
			m := c.Muts[l]
			switch m.Op {
			case "append":
				v, _ := c17ValEval(m.Class, l, c.Var)
				vals = append(vals, v)
			case "overwrite":
				v, _ := c17ValEval(m.Class, l, c.Var)
				vals = []string{v}
			case "remove":
				vals = nil
			}
		}
		if strings.Join(c17ValMembers(vals), "\x00") == strings.Join(got, "\x00") {
			return "result equals router -> virtual host -> route order (levels applied in reverse)", true
		}
	}
	return "resulting values differ from route -> virtual host -> router application", true
}

func c17CheckHeaderValues(p *vreport.Part, c c17ValCase) {
	part := "router-" + c.Dir + "-header-values"
	var muts [3]c17Mut
	for l, m := range c.Muts {
		switch m.Op {
		case "append", "overwrite":
			muts[l] = c17Mut{Op: m.Op, Key: "x-k", Value: c17ValText(m.Class, l)}
		case "remove":
			muts[l] = c17Mut{Op: "remove", Key: "x-k"}
		}
	}
	conf := c17Conf{Kind: c.Kind}
	if c.Dir == "request" {
		conf.Req = muts
	} else {
		conf.Resp = muts
	}
	text := c17ConfigJSON(conf)
	rs, err, pan := c17Build(text)
	if pan != "" || err != nil {
		p.Violation(c.Dir+"-headers: valid configuration rejected (value alphabet, "+c17KindClass(c.Kind)+")", fmt.Sprintf("config %s: error %v panic %s", text, err, pan), c)
		return
	}
	initial := c17ValInitial(c.Initial)
	var msgHdrs [][2]string
	for _, v := range initial {
		msgHdrs = append(msgHdrs, [2]string{"x-k", v})
	}
	msgHdrs = append(msgHdrs, [2]string{"x-other", "o"})
	q := c17Req{Carrier: c.Carrier, Host: "a.com", Path: "/a"}
	if c.Dir == "request" {
		q.Headers = msgHdrs
	}
	d, err := c17Receive(q)
	if err != nil {
		vreport.HarnessError("C17", part, "cannot parse harness request: "+err.Error())
		return
	}
	switch c.Var {
	case "empty":
		err = variable.SetString(d.ctx, c17ValueVar, "")
	case "set":
		err = variable.SetString(d.ctx, c17ValueVar, "w")
	}
	if err != nil {
		vreport.HarnessError("C17", part, "cannot set the harness variable: "+err.Error())
		return
	}
	route, pan := c17Route(rs, d)
	if pan != "" || route == nil {
		p.Violation("setup: request not matched by its route ("+c17KindClass(c.Kind)+")", fmt.Sprintf("config %s request %s: route %v panic %s", text, q, route, pan), c)
		return
	}
	if pan := c17FinalizeRequest(route, d); pan != "" {
		p.Violation("request-headers: FinalizeRequestHeaders panics (value alphabet, "+c17KindClass(c.Kind)+", "+c.Carrier+")", fmt.Sprintf("config %s request %s: %s", text, q, pan), c)
		return
	}
	var after map[string][]string
	if c.Dir == "request" {
		after = c17Send(d).Headers
	} else {
		rh, err := c17Response(c.Carrier, msgHdrs)
		if err != nil {
			vreport.HarnessError("C17", part, "cannot parse harness response: "+err.Error())
			return
		}
		if pan := c17FinalizeResponse(route, d.ctx, rh); pan != "" {
			p.Violation("response-headers: FinalizeResponseHeaders panics (value alphabet, "+c17KindClass(c.Kind)+", "+c.Carrier+")", fmt.Sprintf("config %s: %s", text, pan), c)
			return
		}
		after = c17HeaderValues(rh)
	}
	gotRaw := after["x-k"]
	got := c17ValMembers(gotRaw)
	wantRaw, decided := c17ValRef(initial, c.Muts, c.Var)
	want := c17ValMembers(wantRaw)
	desc := c17ValMutsString(c.Muts, c.Var)
	p.Distinct(fmt.Sprintf("%s|%s|%s|%s|%s|%s", c.Dir, c.Kind, c.Carrier, c.Initial, c.Var, desc))
	p.Outcome(fmt.Sprintf("%d:%q", len(gotRaw), gotRaw))
	if !decided {
		p.Count("not_compared(value syntax the statement does not define)", 1)
	}
	if p.WantSample() {
		p.Sample(map[string]interface{}{"dir": c.Dir, "kind": c.Kind, "carrier": c.Carrier, "initial": initial, "variable": c.Var, "mutations": desc, "result": gotRaw, "reference_members": want, "compared": decided})
	}
	if o := strings.Join(after["x-other"], ","); o != "o" {
		p.Violation(fmt.Sprintf("%s-headers: route kind %s, %s: header without configured mutation changed (value alphabet)", c.Dir, c17KindClass(c.Kind), c.Carrier),
			fmt.Sprintf("config %s, message headers %v: x-other expected [o], got %v", text, msgHdrs, after["x-other"]), c)
	}
	if !decided {
		return
	}
	if strings.Join(got, "\x00") == strings.Join(want, "\x00") {
		return
	}
	what, generic := c17ValDiagnose(c, got)
	key := c.Dir + "-headers: " + what
	if generic {
		key = fmt.Sprintf("%s-headers (value alphabet): route kind %s, %s: %s", c.Dir, c17KindClass(c.Kind), c.Carrier, what)
	}
	p.Violation(key, fmt.Sprintf("route kind %s, %s; config %s; variable %s for the request: %s; message carried x-k=%q; mutations %s: expected the non-empty x-k values %q, got x-k=%q",
		c.Kind, c.Carrier, text, c17ValueVar, c.Var, initial, desc, want, gotRaw), c)
}
