//go:build verif

package router

import (
	"fmt"
	"strings"
	"testing"
	"time"

	v2 "mosn.io/mosn/pkg/config/v2"
	"mosn.io/mosn/pkg/types"
	"mosn.io/mosn/pkg/verifrt/vreport"
)

// C04 part 2: first matching rule in configuration order.
//
// One default virtual host whose route list is every ordered list of <=3
// (thorough: <=4) rules of the alphabet (repetitions included: rule k of the
// list routes to cluster r<k>, so equal rules at different positions are told
// apart), probed with every request of paths x header sets x methods.

type c04RouteCase struct {
	Rules []c04Rule `json:"rules"`
	Req   *c04Req   `json:"req,omitempty"` // nil: every request of the alphabet
}

func c04GenRuleLists(alpha []c04Rule, maxLen int, yield func([]c04Rule) bool) {
	var rec func(cur []c04Rule) bool
	rec = func(cur []c04Rule) bool {
		if len(cur) > 0 {
			if !yield(append([]c04Rule(nil), cur...)) {
				return false
			}
		}
		if len(cur) == maxLen {
			return true
		}
		for _, r := range alpha {
			if !rec(append(cur, r)) {
				return false
			}
		}
		return true
	}
	rec(nil)
}

func c04RulesKey(rules []c04Rule) string {
	var s []string
	for _, r := range rules {
		s = append(s, r.String())
	}
	return strings.Join(s, " ; ")
}

// c04MatcherClass: class of one header matcher for finding keys: which special
// name it carries (the legacy fast-match key `service`, the variable-backed
// `method` of HTTP rules, any other header) and - for the first matcher of a
// rule, the one the legacy fast path looks at - the form of its value.
func c04MatcherClass(http bool, h c04Hdr, detail bool) string {
	n := "header"
	switch {
	case h.Name == types.RPCRouteMatchKey:
		n = "service"
	case http && h.Name == "method":
		n = "method"
	}
	if !detail {
		return n
	}
	switch {
	case h.Regex && h.Value == ".*":
		return n + "~.*"
	case h.Regex:
		return n + "~regex"
	case h.Value == ".*":
		return n + "=.*"
	}
	return n + "=exact"
}

// c04RuleClass: kind of the rule and the shape of its header matcher list
// (number, order, special names) - never concrete values.
func c04RuleClass(r c04Rule) string {
	s := r.Kind
	if r.Kind == "dsl" {
		return c04DslRuleClass(r)
	}
	if len(r.Headers) == 0 {
		return s
	}
	var ms []string
	for i, h := range r.Headers {
		ms = append(ms, c04MatcherClass(r.Kind != "rpc", h, i == 0))
	}
	return s + "[" + strings.Join(ms, ",") + "]"
}

func TestVerifC04Routes(t *testing.T) {
	c04Quiet()
	p := vreport.Begin("C04", "route-order", time.Duration(vreport.Pick(3, 15))*time.Minute)
	maxLen := vreport.Pick(3, 4)
	reqs := c04Requests()
	complete := vreport.Run(p,
		func(yield func(c04RouteCase) bool) {
			c04GenRuleLists(c04Rules, maxLen, func(rs []c04Rule) bool { return yield(c04RouteCase{Rules: rs}) })
		},
		func(p *vreport.Part, c c04RouteCase) { c04CheckRoutes(p, c, reqs, false) })
	var names []string
	for _, r := range c04Rules {
		names = append(names, r.String())
	}
	p.End(complete,
		fmt.Sprintf("every ordered list of <=%d rules (with repetition) over %d rules [%s] x %d requests (paths %v x header sets %v x methods %v)", maxLen, len(c04Rules), strings.Join(names, " | "), len(reqs), c04Paths, c04HeaderSets, c04Methods),
		"cartesian product; MatchRoute must return the first rule in configuration order that holds, 'no route' only if none holds; MatchAllRoutes must return exactly the rules that hold, in configuration order; rules whose verdict the statement does not decide (path/prefix differing from the probe only by letter case; legacy `service: .*` against a present header) are enumerated but admit either verdict; distinct = (rule list, vector of reference verdicts); outcome = position selected / number of rules")
}

// coarse: the distinct key uses the rule classes instead of the concrete rules
// (for parts whose number of lookups is too large to remember each).
func c04CheckRoutes(p *vreport.Part, c c04RouteCase, reqs []c04Req, coarse bool) {
	cfg := c04VHostConfig([][]string{{"*"}}, func(int) []v2.Router {
		var out []v2.Router
		for k, r := range c.Rules {
			out = append(out, c04Router(r, fmt.Sprintf("r%d", k)))
		}
		return out
	})
	rs, err, pan := c04NewRouters(cfg)
	if pan != "" || err != nil {
		p.Violation("route-config: valid rule list rejected", fmt.Sprintf("rules [%s]: error %v panic %s", c04RulesKey(c.Rules), err, pan), c)
		return
	}
	if c.Req != nil {
		reqs = []c04Req{*c.Req}
	} else {
		p.EvalN(len(reqs) - 1)
	}
	lkey := c04RulesKey(c.Rules)
	dkey := lkey
	if coarse {
		dkey = ""
		for _, r := range c.Rules {
			dkey += c04RuleClass(r) + ";"
		}
	}
	for _, q := range reqs {
		q := q
		cc := c04RouteCase{Rules: c.Rules, Req: &q}
		adm, verdict := c04RefRoute(c.Rules, q)
		got, all, pan := c04Lookup(rs, q)
		if pan != "" {
			p.Violation("route-select: lookup panics", fmt.Sprintf("rules [%s] request %s: panic %s", lkey, q, pan), cc)
			continue
		}
		gotIdx := -1
		if got != "" {
			fmt.Sscanf(got, "r%d", &gotIdx)
		}
		p.Distinct(dkey + "|" + fmt.Sprint(verdict))
		p.Outcome(fmt.Sprintf("%d/%d decided=%v", gotIdx, len(c.Rules), len(adm) == 1))
		if len(adm) > 1 {
			p.Count("lookups_not_fully_decided_by_statement", 1)
		}
		if p.WantSample() {
			p.Sample(map[string]interface{}{"rules": lkey, "request": q.String(), "verdicts": fmt.Sprint(verdict), "selected": gotIdx})
		}
		if !c04In(adm, gotIdx) {
			p.Violation(c04RouteKey(c.Rules, verdict, adm, gotIdx),
				fmt.Sprintf("rules [%s] request %s: reference verdicts %v admit %v (-1 = no route), router selected %d", lkey, q, verdict, adm, gotIdx), cc)
		}
		// MatchAllRoutes: every rule that holds, none that does not, configuration order
		last, bad := -1, ""
		seen := map[int]bool{}
		for _, name := range all {
			k := -1
			fmt.Sscanf(name, "r%d", &k)
			if k < 0 || k >= len(c.Rules) {
				bad = "unknown route " + name
				break
			}
			if k <= last {
				bad = "not in configuration order"
			}
			last = k
			seen[k] = true
			if verdict[k] == c04No {
				bad = fmt.Sprintf("contains non-matching rule (%s)", c04RuleClass(c.Rules[k]))
			}
		}
		if bad == "" {
			for k, v := range verdict {
				if v == c04Yes && !seen[k] {
					bad = fmt.Sprintf("misses matching rule (%s)", c04RuleClass(c.Rules[k]))
					break
				}
			}
		}
		if bad != "" {
			p.Violation("route-select: MatchAllRoutes "+bad,
				fmt.Sprintf("rules [%s] request %s: reference verdicts %v, MatchAllRoutes returned %v", lkey, q, verdict, all), cc)
		}
	}
}

// c04RouteKey names the failing class: which kind of rule was wrongly selected
// or wrongly skipped — never the concrete list.
func c04RouteKey(rules []c04Rule, verdict []c04Tri, adm []int, got int) string {
	first := adm[len(adm)-1] // the definite answer: first definite match or -1
	switch {
	case got >= 0 && got < len(rules) && verdict[got] == c04No:
		return fmt.Sprintf("route-select: rule selected although it does not hold (%s)", c04RuleClass(rules[got]))
	case first >= 0 && (got == -1 || got > first):
		return fmt.Sprintf("route-select: earlier matching rule skipped (%s)", c04RuleClass(rules[first]))
	case got >= 0 && got < len(rules):
		return fmt.Sprintf("route-select: rule selected out of order (%s)", c04RuleClass(rules[got]))
	}
	return "route-select: unexpected result"
}

// ---------------------------------------------------------------------------
// variable and/or chains

type c04ChainCase struct {
	Vars []c04Var `json:"vars"`
	Req  *c04Req  `json:"req,omitempty"`
}

var c04VarItems = []c04Var{
	{Name: types.VarMethod, Value: "GET"},
	{Name: types.VarMethod, Value: "POST"},
	{Name: types.VarPath, Value: "/a"},
	{Name: types.VarPath, Regex: "^/a.*$"},
	{Name: types.VarHost, Value: "a.com"},
	// regular expressions without a meta character: still a SEARCH (unanchored), not an equality test
	// (seeded change C04-r7: a "literal fast path" compared them with ==); "a" is a proper substring of
	// the paths /a /ab, ".co" needs the regex engine and is a proper substring of both hosts
	{Name: types.VarPath, Regex: "a"},
	{Name: types.VarHost, Regex: "com"},
}

func TestVerifC04VarChains(t *testing.T) {
	c04Quiet()
	p := vreport.Begin("C04", "variable-chains", time.Duration(vreport.Pick(3, 10))*time.Minute)
	maxLen := vreport.Pick(3, 4)
	models := []string{"", "and", "or", "OR"}
	var reqs []c04Req
	for _, q := range c04Requests() {
		if len(q.Headers) == 0 {
			reqs = append(reqs, q)
			q.Host = "b.com"
			reqs = append(reqs, q)
		}
	}
	complete := vreport.Run(p,
		func(yield func(c04ChainCase) bool) {
			var rec func(cur []c04Var) bool
			rec = func(cur []c04Var) bool {
				if len(cur) > 0 {
					if !yield(c04ChainCase{Vars: append([]c04Var(nil), cur...)}) {
						return false
					}
				}
				if len(cur) == maxLen {
					return true
				}
				for _, it := range c04VarItems {
					for _, m := range models {
						it.Model = m
						if !rec(append(cur, it)) {
							return false
						}
					}
				}
				return true
			}
			rec(nil)
		},
		func(p *vreport.Part, c c04ChainCase) {
			if len(c.Vars) == 0 {
				return
			}
			rule := c04Rule{Kind: "variable", Vars: c.Vars}
			// the chain is followed by a catch-all so that "skipped" is observable as a different route
			rules := []c04Rule{rule, {Kind: "prefix", Pattern: "/"}}
			cfg := c04VHostConfig([][]string{{"*"}}, func(int) []v2.Router {
				return []v2.Router{c04Router(rules[0], "r0"), c04Router(rules[1], "r1")}
			})
			rs, err, pan := c04NewRouters(cfg)
			if pan != "" || err != nil {
				p.Violation("route-config: valid variable rule rejected", fmt.Sprintf("rule [%s]: error %v panic %s", rule, err, pan), c)
				return
			}
			rq := reqs
			if c.Req != nil {
				rq = []c04Req{*c.Req}
			} else {
				p.EvalN(len(rq) - 1)
			}
			for _, q := range rq {
				q := q
				cc := c04ChainCase{Vars: c.Vars, Req: &q}
				adm, verdict := c04RefRoute(rules, q)
				got, _, pan := c04Lookup(rs, q)
				if pan != "" {
					p.Violation("route-select: lookup panics", fmt.Sprintf("rule [%s] request %s: panic %s", rule, q, pan), cc)
					continue
				}
				gotIdx := -1
				if got != "" {
					fmt.Sscanf(got, "r%d", &gotIdx)
				}
				var conn []string
				for _, v := range c.Vars[:len(c.Vars)-1] {
					m := strings.ToLower(v.Model)
					if m == "" {
						m = "and"
					}
					conn = append(conn, m)
				}
				p.Distinct(rule.String() + "|" + verdict[0].String())
				p.Outcome(fmt.Sprintf("%v ref=%s got=%d", conn, verdict[0], gotIdx))
				if verdict[0] == c04Unknown {
					p.Count("lookups_not_fully_decided_by_statement", 1)
				}
				if p.WantSample() {
					p.Sample(map[string]interface{}{"rule": rule.String(), "request": q.String(), "verdict": verdict[0].String(), "selected": gotIdx})
				}
				if !c04In(adm, gotIdx) {
					what := "holds but is skipped"
					if verdict[0] == c04No {
						what = "does not hold but is selected"
					}
					p.Violation(fmt.Sprintf("route-select: variable chain %v %s", conn, what),
						fmt.Sprintf("rule [%s] then catch-all, request %s: reference verdict %s admits %v, router selected %d", rule, q, verdict[0], adm, gotIdx), cc)
				}
			}
		})
	p.End(complete,
		fmt.Sprintf("every chain of <=%d variable matchers over %d items x connectives %q, followed by a catch-all rule, x %d requests", maxLen, len(c04VarItems), models, len(reqs)),
		"cartesian product; a chain holds under 'and binds tighter than or' and under strict left-to-right evaluation alike, otherwise (the two readings differ) it is enumerated but not compared; distinct = (chain, reference verdict); outcome = (connectives, verdict, selected)")
}
