//go:build verif

package router

import (
	"fmt"
	"os"
	"testing"
	"time"

	"mosn.io/mosn/pkg/types"
	"mosn.io/mosn/pkg/verifrt/vreport"
	"mosn.io/mosn/pkg/verifrt/vrt"
)

// C04 part 4 (schedules): lookups concurrent with updates of the same virtual host.
//
// Router: vh0 = a.com (routes: prefix /p -> vh0), vh1 = * (prefix /p -> vh1).
// One writer thread runs a program of 1-2 updates of vh0 (AddRoute(prefix / ->
// add), RemoveAllRoutes), two reader threads make ONE lookup each (MatchRoute
// or MatchAllRoutes). pkg/router is instrumented (every lock operation is a
// scheduling point). Quick: every schedule with <=2 preemptions; thorough: ALL
// interleavings.
//
// Oracle: every reader result must equal the reference result under one of the
// configurations the writer's program passes through (initial, after op 1,
// after op 2) — never a mixture; after all threads finished, a fresh lookup
// must equal the reference for the final configuration.
//
// Limits: a cooperative scheduler only interleaves at synchronisation
// operations; an update that touched shared state WITHOUT the virtual host's
// lock would be a data race invisible here (see DESIGN 2.3, -race build).

type c04ConcCase struct {
	Writer  []string `json:"writer"` // "add" | "remove"
	Readers []c04Req `json:"readers"`
	All     []bool   `json:"all"`   // per reader: true = MatchAllRoutes, false = MatchRoute
	Bound   int      `json:"bound"` // preemption bound, -1 = unbounded
	Choices []int    `json:"choices,omitempty"`
}

func c04ConcConfigs(writer []string) [][]c04ModelRoute {
	cur := []c04ModelRoute{{c04Rule{Kind: "prefix", Pattern: "/p"}, "vh0"}}
	out := [][]c04ModelRoute{append([]c04ModelRoute(nil), cur...)}
	for _, op := range writer {
		if op == "add" {
			cur = append(cur, c04ModelRoute{c04Rule{Kind: "prefix", Pattern: "/"}, "add"})
		} else {
			cur = nil
		}
		out = append(out, append([]c04ModelRoute(nil), cur...))
	}
	return out
}

var c04ConcVHosts = [][]string{{"a.com"}, {"*"}}

func c04ConcModel(vh0 []c04ModelRoute) [][]c04ModelRoute {
	return [][]c04ModelRoute{vh0, {{c04Rule{Kind: "prefix", Pattern: "/p"}, "vh1"}}}
}

// c04ConcRef: the reference result of one lookup under one configuration of vh0
// (rendered as text; several entries only where the statement leaves a choice).
func c04ConcRef(vh0 []c04ModelRoute, q c04Req, all bool) []string {
	model := c04ConcModel(vh0)
	one, refVH := c04ModelLookup(c04ConcVHosts, model, q)
	if !all {
		return one
	}
	var wantAll []string
	if refVH >= 0 {
		for _, mr := range model[refVH] {
			if c04RefRule(mr.rule, q) == c04Yes {
				wantAll = append(wantAll, mr.cluster)
			}
		}
	}
	return []string{fmt.Sprint(wantAll)}
}

// c04ConcAdmissible: reference results under every configuration the writer passes through.
func c04ConcAdmissible(writer []string, q c04Req, all bool) (adm []string) {
	for _, vh0 := range c04ConcConfigs(writer) {
		adm = append(adm, c04ConcRef(vh0, q, all)...)
	}
	return
}

type c04ConcObs struct {
	res   []string
	pan   []string
	final string
}

// c04ConcLookup makes ONE lookup (one critical section of the virtual host).
func c04ConcLookup(rs types.Routers, q c04Req, all bool) (res string, panicked string) {
	defer func() {
		if r := recover(); r != nil {
			panicked = fmt.Sprint(r)
		}
	}()
	ctx, h := c04Ctx(q)
	if !all {
		return c04Cluster(ctx, rs.MatchRoute(ctx, h)), ""
	}
	var names []string
	for _, r := range rs.MatchAllRoutes(ctx, h) {
		names = append(names, c04Cluster(ctx, r))
	}
	return fmt.Sprint(names), ""
}

var c04ConcFinalReq = c04Req{Host: "a.com", Path: "/p", Method: "GET"}

func c04ConcBody(c c04ConcCase, obs *c04ConcObs) func() {
	return func() {
		cfg := c04VHostConfig(c04ConcVHosts, c04PurityRoutes)
		rs, err, pan := c04NewRouters(cfg)
		if err != nil || pan != "" {
			obs.pan = append(obs.pan, fmt.Sprintf("NewRouters: %v %s", err, pan))
			return
		}
		obs.res = make([]string, len(c.Readers))
		done := 0
		vrt.GoNamed("writer", func() {
			for _, op := range c.Writer {
				if op == "add" {
					r := c04Router(c04Rule{Kind: "prefix", Pattern: "/"}, "add")
					rs.AddRoute("a.com", &r)
				} else {
					rs.RemoveAllRoutes("a.com")
				}
			}
			done++
		})
		for i := range c.Readers {
			i := i
			vrt.GoNamed(fmt.Sprintf("reader%d", i), func() {
				res, pan := c04ConcLookup(rs, c.Readers[i], c.All[i])
				obs.res[i] = res
				if pan != "" {
					obs.pan = append(obs.pan, pan)
				}
				done++
			})
		}
		vrt.WaitUntil("writer and readers done", func() bool { return done == 1+len(c.Readers) })
		res, pan := c04ConcLookup(rs, c04ConcFinalReq, true)
		obs.final = res
		if pan != "" {
			obs.pan = append(obs.pan, pan)
		}
	}
}

func TestVerifC04ConcurrentLookups(t *testing.T) {
	c04Quiet()
	p := vreport.Begin("C04", "concurrent-lookups", time.Duration(vreport.Pick(4, 20))*time.Minute)
	var rc c04ConcCase
	if vreport.Replaying() {
		if vreport.ReplayFor("C04", "concurrent-lookups", &rc) {
			c04ConcRun(p, rc, true)
			p.End(true, "replay", "replay of one recorded schedule")
		}
		return
	}
	writers := [][]string{{"add"}, {"remove"}, {"add", "remove"}, {"remove", "add"}}
	bound := vreport.Pick(2, -1)
	type reader struct {
		q   c04Req
		all bool
	}
	var r1, r2 []reader
	for _, path := range []string{"/p", "/q"} {
		r1 = append(r1, reader{c04Req{Host: "a.com", Path: path, Method: "GET"}, false})
	}
	for _, h := range []string{"a.com", "c.org"} {
		for _, path := range []string{"/p", "/q"} {
			for _, all := range []bool{false, true} {
				if h == "c.org" && (all || path == "/q") {
					continue // one reader on the OTHER virtual host is enough: it must never move
				}
				r2 = append(r2, reader{c04Req{Host: h, Path: path, Method: "GET"}, all})
			}
		}
	}
	complete := true
	ncases := 0
	for _, w := range writers {
		for _, a := range r1 {
			for _, b := range r2 {
				if p.Expired() {
					complete = false
					break
				}
				ncases++
				if !c04ConcRun(p, c04ConcCase{Writer: w, Readers: []c04Req{a.q, b.q}, All: []bool{a.all, b.all}, Bound: bound}, false) {
					complete = false
				}
			}
		}
	}
	bt := "every schedule with <=2 preemptions"
	if bound < 0 {
		bt = "ALL interleavings (unbounded)"
	}
	p.End(complete,
		fmt.Sprintf("router {a.com, *}; %d cases = writer programs %v on a.com x reader 1 (MatchRoute, Host a.com, path /p|/q) x reader 2 (MatchRoute|MatchAllRoutes on a.com /p|/q, or MatchRoute on c.org /p); %s of the three threads at the lock operations of pkg/router", ncases, writers, bt),
		"stateless DFS over schedules; each reader's result must equal the reference under one configuration the writer passes through, the final lookup the reference under the final configuration; distinct = (case, observed results); outcome = observed results")
}

func c04ConcRun(p *vreport.Part, c c04ConcCase, replay bool) bool {
	if len(c.Readers) == 0 || len(c.All) != len(c.Readers) {
		return true
	}
	adm := make([][]string, len(c.Readers))
	for i, q := range c.Readers {
		adm[i] = c04ConcAdmissible(c.Writer, q, c.All[i])
	}
	cfgs := c04ConcConfigs(c.Writer)
	finalAdm := c04ConcRef(cfgs[len(cfgs)-1], c04ConcFinalReq, true)
	var obs c04ConcObs
	opts := vrt.Options{Bound: c.Bound, MaxSteps: 20000}
	if replay {
		opts.Replay = true
		opts.Prefix = c.Choices
	}
	st := vrt.Explore(opts, func() {
		obs = c04ConcObs{}
		c04ConcBody(c, &obs)()
	}, func(r *vrt.Result) {
		p.Eval()
		cc := c
		cc.Choices = r.Choices
		p.Distinct(fmt.Sprintf("%v|%v|%v|%v", c.Writer, c.Readers, c.All, obs.res))
		p.Outcome(fmt.Sprintf("%v %v", obs.res, obs.final))
		if r.Deadlock || len(r.Panics) > 0 || r.StepLimit || r.Diverged != "" {
			p.Violation("concurrent: execution did not complete (deadlock/panic under a writer concurrent with readers)", r.String()+fmt.Sprint(r.Panics), cc)
			return
		}
		if len(obs.pan) > 0 {
			p.Violation("concurrent: lookup panics while the virtual host is updated", fmt.Sprintf("writer %v readers %v schedule %v: %v", c.Writer, c.Readers, r.Choices, obs.pan), cc)
			return
		}
		if p.WantSample() {
			p.Sample(map[string]interface{}{"writer": c.Writer, "readers": c.Readers, "all": c.All, "schedule": r.Choices, "results": obs.res})
		}
		for i := range c.Readers {
			if !c04StrIn(adm[i], obs.res[i]) {
				api := "MatchRoute"
				if c.All[i] {
					api = "MatchAllRoutes"
				}
				p.Violation("concurrent: "+api+" result equals neither the old nor the new configuration's result",
					fmt.Sprintf("writer %v on a.com, reader %d %s, schedule %v: got %q, configurations passed through admit %q", c.Writer, i, c.Readers[i], r.Choices, obs.res[i], adm[i]), cc)
			}
		}
		if !c04StrIn(finalAdm, obs.final) {
			p.Violation("concurrent: lookup after all updates differs from the reference for the final configuration",
				fmt.Sprintf("writer %v on a.com, schedule %v: final MatchAllRoutes a.com /p got %q, final configuration admits %q", c.Writer, r.Choices, obs.final, finalAdm), cc)
		}
	})
	p.AddTraces(st.Executions)
	if os.Getenv("VERIF_DEBUG") != "" {
		fmt.Printf("case %v %v %v: execs=%d maxdepth=%d points=%d\n", c.Writer, c.Readers, c.All, st.Executions, st.MaxDepth, st.Points)
	}
	return st.Complete
}
