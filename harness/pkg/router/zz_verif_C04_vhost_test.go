//go:build verif

package router

import (
	"fmt"
	"sort"
	"strings"
	"testing"
	"time"

	v2 "mosn.io/mosn/pkg/config/v2"
	"mosn.io/mosn/pkg/verifrt/vreport"
)

// C04 part 1: virtual-host precedence.
//
// Every ordered list of <=3 virtual hosts over the 14-domain alphabet (quick:
// one domain per virtual host, plus every list of <=2 virtual hosts with one or
// two domains; thorough: one or two domains — every unordered pair, the equal
// pair included — per virtual host) x every Host value of the alphabet.
// Virtual host i carries the single route `prefix / -> cluster vh<i>`, so the
// cluster name of the selected route names the selected virtual host.

type c04VHCase struct {
	VHosts [][]string `json:"vhosts"`         // domains per virtual host, configuration order
	Host   *string    `json:"host,omitempty"` // nil: every Host value of the alphabet
}

func c04VHostOptions(twoDomains bool) [][]string {
	var opts [][]string
	for _, d := range c04Domains {
		opts = append(opts, []string{d})
	}
	if twoDomains {
		for i, d := range c04Domains {
			for _, e := range c04Domains[i:] {
				opts = append(opts, []string{d, e})
			}
		}
	}
	return opts
}

func c04GenVHostSets(opts [][]string, maxLen int, yield func([][]string) bool) {
	var rec func(cur [][]string) bool
	rec = func(cur [][]string) bool {
		if len(cur) > 0 {
			if !yield(append([][]string(nil), cur...)) {
				return false
			}
		}
		if len(cur) == maxLen {
			return true
		}
		for _, o := range opts {
			if !rec(append(cur, o)) {
				return false
			}
		}
		return true
	}
	rec(nil)
}

func c04ClassLabel(class, slen int) string {
	if class == c04ClassWildPort || class == c04ClassWildAnyPort {
		return fmt.Sprintf("%s(suffix-len %d)", c04ClassName[class], slen)
	}
	return c04ClassName[class]
}

func c04DomainSetKey(vhosts [][]string) string {
	var ds []string
	for _, v := range vhosts {
		for _, d := range v {
			ds = append(ds, strings.ToLower(d))
		}
	}
	sort.Strings(ds)
	return strings.Join(ds, ",")
}

func TestVerifC04VHosts(t *testing.T) {
	c04Quiet()
	p := vreport.Begin("C04", "vhost-precedence", time.Duration(vreport.Pick(3, 25))*time.Minute)
	opts := c04VHostOptions(vreport.Thorough())
	shard, nshard := vreport.Shard()
	complete := vreport.Run(p,
		func(yield func(c04VHCase) bool) {
			n := 0
			ok := true
			c04GenVHostSets(opts, 3, func(vh [][]string) bool {
				n++
				if n%nshard != shard {
					return true
				}
				ok = yield(c04VHCase{VHosts: vh})
				return ok
			})
			if !vreport.Thorough() && ok {
				// quick: additionally every list of <=2 virtual hosts with one or two domains
				// (only the lists with at least one two-domain virtual host are new)
				c04GenVHostSets(c04VHostOptions(true), 2, func(vh [][]string) bool {
					two := false
					for _, v := range vh {
						two = two || len(v) == 2
					}
					if !two {
						return true
					}
					n++
					if n%nshard != shard {
						return true
					}
					return yield(c04VHCase{VHosts: vh})
				})
			}
		},
		c04CheckVHosts)
	dom := "one domain per virtual host (plus every list of <=2 virtual hosts with one or two domains each)"
	if vreport.Thorough() {
		dom = "one or two domains per virtual host (every unordered pair of the alphabet, equal pair included)"
	}
	p.End(complete,
		fmt.Sprintf("every ordered list of <=3 virtual hosts, %s, over %d domains %v x %d Host values %q", dom, len(c04Domains), c04Domains, len(c04Hosts), c04Hosts),
		"cartesian product of configurations and Host values; NewRouters must reject exactly the sets with two domains equal ignoring case; for accepted sets MatchRoute/MatchAllRoutes must select the virtual host of the documented precedence (a port-less domain is a definite 'no port'; '*' in a wildcard domain stands for >=1 character); empty or syntactically invalid Host values are compared only for 'no route or the default virtual host'; distinct = (set of lower-cased domains, Host) ignoring order; outcome = (expected class, selected class)")
}

func c04CheckVHosts(p *vreport.Part, c c04VHCase) {
	cfg := c04VHostConfig(c.VHosts, func(i int) []v2.Router {
		return []v2.Router{c04Router(c04Rule{Kind: "prefix", Pattern: "/"}, fmt.Sprintf("vh%d", i))}
	})
	rs, err, pan := c04NewRouters(cfg)
	dup := c04RefDuplicate(c.VHosts)
	if pan != "" {
		p.Violation("vhost-config: NewRouters panics", fmt.Sprintf("domains %v: panic %s", c.VHosts, pan), c)
		return
	}
	if dup {
		p.Outcome("config rejected=" + fmt.Sprint(err != nil))
		p.Distinct("dup|" + c04DomainSetKey(c.VHosts))
		if err == nil {
			p.Violation("vhost-config: domain set with two equal domains (ignoring case) accepted",
				fmt.Sprintf("domains %v contain the same domain twice (compared case-insensitively); NewRouters returned no error, precedence is ambiguous", c.VHosts), c)
		}
		return
	}
	if err != nil {
		p.Violation("vhost-config: valid domain set rejected",
			fmt.Sprintf("domains %v are pairwise different and individually valid; NewRouters returned %v", c.VHosts, err), c)
		return
	}
	hosts := c04Hosts
	if c.Host != nil {
		hosts = []string{*c.Host}
	} else {
		p.EvalN(len(hosts) - 1)
	}
	for _, hv := range hosts {
		hv := hv
		cc := c04VHCase{VHosts: c.VHosts, Host: &hv}
		got, all, pan := c04Lookup(rs, c04Req{Host: hv, Path: "/", Method: "GET"})
		if pan != "" {
			p.Violation("vhost-select: lookup panics", fmt.Sprintf("domains %v Host %q: panic %s", c.VHosts, hv, pan), cc)
			continue
		}
		gotIdx := -1
		if got != "" {
			fmt.Sscanf(got, "vh%d", &gotIdx)
		}
		p.Distinct(c04DomainSetKey(c.VHosts) + "|" + hv)
		if p.WantSample() {
			p.Sample(map[string]interface{}{"vhosts": c.VHosts, "host": hv, "selected": got})
		}
		// MatchAllRoutes must agree with MatchRoute on the virtual host
		allWant := []string{}
		if got != "" {
			allWant = []string{got}
		}
		if fmt.Sprint(all) != fmt.Sprint(allWant) {
			p.Violation("vhost-select: MatchAllRoutes and MatchRoute use different virtual hosts",
				fmt.Sprintf("domains %v Host %q: MatchRoute -> %q, MatchAllRoutes -> %v", c.VHosts, hv, got, all), cc)
		}
		host, port, ok := c04ParseHost(hv)
		if !ok {
			def := c04RefDefault(c.VHosts)
			p.Outcome(fmt.Sprintf("invalid-host default=%v got-default=%v", def >= 0, gotIdx == def))
			if gotIdx != -1 && gotIdx != def {
				p.Violation("vhost-select: empty/invalid Host selects a specific (non-default) virtual host",
					fmt.Sprintf("domains %v Host %q is empty or not a valid host[:port]; expected no route or the default virtual host, got vh%d %v", c.VHosts, hv, gotIdx, c.VHosts[gotIdx]), cc)
			}
			continue
		}
		want, wclass, wlen := c04RefVHost(c.VHosts, host, port)
		gclass, glen := c04ClassNoMatch, 0
		glabel := "none"
		if gotIdx >= 0 && gotIdx < len(c.VHosts) {
			gclass, glen = c04RefClassOf(c.VHosts[gotIdx], host, port)
			glabel = c04ClassLabel(gclass, glen)
		}
		wlabel := "none"
		if want >= 0 {
			wlabel = c04ClassLabel(wclass, wlen)
		}
		p.Outcome(wlabel + " / " + glabel)
		if gotIdx != want {
			// key: classes only (suffix lengths reduced to longer/shorter), never the concrete domains
			kw, kg := c04ClassName[wclass], c04ClassName[gclass]
			if want < 0 {
				kw = "none"
			}
			if gotIdx < 0 {
				kg = "none"
			}
			if wclass == gclass && want >= 0 && gotIdx >= 0 {
				kw += "(longest suffix)"
				kg += "(shorter suffix)"
			}
			wd, gd := "no virtual host", "no virtual host"
			if want >= 0 {
				wd = fmt.Sprintf("vh%d %v [%s]", want, c.VHosts[want], wlabel)
			}
			if gotIdx >= 0 && gotIdx < len(c.VHosts) {
				gd = fmt.Sprintf("vh%d %v [%s]", gotIdx, c.VHosts[gotIdx], glabel)
			}
			p.Violation(fmt.Sprintf("vhost-select: expected %s, selected %s", kw, kg),
				fmt.Sprintf("domains %v Host %q (host %q port %q): documented precedence selects %s, router selected %s", c.VHosts, hv, host, port, wd, gd), cc)
		}
	}
}
