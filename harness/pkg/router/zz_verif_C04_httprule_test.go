//go:build verif

package router

import (
	"fmt"
	"strings"
	"testing"
	"time"

	v2 "mosn.io/mosn/pkg/config/v2"
	mosnlog "mosn.io/mosn/pkg/log"
	"mosn.io/mosn/pkg/types"
	"mosn.io/mosn/pkg/verifrt/vreport"
	pkglog "mosn.io/pkg/log"
)

// C04 part 2d: the branches of http_rule.go / configutility.go the other grids
// do not reach, one input class per branch:
//
//   - requests whose path variable is EMPTY (http_rule.go `headerPathValue != ""`):
//     no path / prefix / regex rule can hold for such a request;
//   - requests whose method variable is empty against a `method` matcher;
//   - a query string: the path rules see the path variable only (the protocol
//     layers put the query string into a variable of its own), so a rule's verdict
//     must not change with the query string - including one that contains the
//     rule's own path;
//   - trailing slashes (path "/a" vs "/a/"; prefix "/a/" vs "/a");
//   - percent-encoded characters ("/%61", "/a%2Fb"): compared as given and decoded,
//     decided where both agree (the tree compares the variable verbatim);
//   - letter case (path rule: the tree folds case, "TODO: config to support case
//     sensitive"; prefix rule: it does not): undecided by the statement, enumerated;
//   - regex rules WITHOUT anchors: the tree uses a search (regexp.MatchString:
//     "/x/a" matches the rule `/a`); v2.RouterMatch only says "Match request's Path
//     with Regex Comparing": decided where search and whole-path readings agree;
//   - a header matcher whose regex does not compile (configutility.go
//     NewKeyValueData: "ignore it", i.e. the rule is kept WITHOUT that matcher):
//     undecided, enumerated; the rule's other matchers still have to hold.
//
// `prefix: ""` is not a prefix rule: NewRouteBase dispatches on the non-empty
// match field, so such a route is a header-only rule (covered in header-rules).
//
// Part debug-log-level repeats a slice of all rule kinds (and the default route
// handler) with the router's loggers at DEBUG, writing to /dev/null: the result
// is a function of configuration and request only, so every verdict must be the
// same as the reference's - this executes the `GetLogLevel() >= DEBUG` branches of
// every rule kind (e.g. dsl_rule.go indexes the ORIGINAL expression list with the
// index of the COMPILED one there).

func c04HTTPRules(thorough bool) []c04Rule {
	badRe := c04Hdr{Name: "h", Value: "(", Regex: true}
	rules := []c04Rule{
		{Kind: "path", Pattern: "/a"},
		{Kind: "path", Pattern: "/a/"},
		{Kind: "path", Pattern: "/A"},
		{Kind: "prefix", Pattern: "/a"},
		{Kind: "prefix", Pattern: "/a/"},
		{Kind: "prefix", Pattern: "/A"},
		{Kind: "prefix", Pattern: "/", Headers: []c04Hdr{c04HdrGET}},
		{Kind: "regex", Pattern: "^/a.*$"},
		{Kind: "regex-search", Pattern: "/a"},
		{Kind: "regex-search", Pattern: "a$"},
		{Kind: "regex-search", Pattern: "^/a"},
		{Kind: "regex-search", Pattern: "b|c"},
		{Kind: "regex-search", Pattern: "x*"},
		{Kind: "prefix", Pattern: "/a", Headers: []c04Hdr{badRe}},
		{Kind: "rpc", Headers: []c04Hdr{badRe}},
		{Kind: "rpc", Headers: []c04Hdr{c04HdrH1, badRe}},
	}
	if thorough {
		rules = append(rules,
			c04Rule{Kind: "path", Pattern: "/%61"},
			c04Rule{Kind: "prefix", Pattern: "/a%2F"},
			c04Rule{Kind: "regex-search", Pattern: "/A"},
			c04Rule{Kind: "regex-search", Pattern: "^/a/?$"},
			c04Rule{Kind: "path", Pattern: "/a", Headers: []c04Hdr{c04HdrGET, c04HdrH1}},
		)
	}
	return rules
}

func c04HTTPRequests() []c04Req {
	var out []c04Req
	for _, p := range []string{"/a", "/a/", "/A", "/ab", "/b", "/x/a", "/%61", "/a%2Fb", "/", ""} {
		for _, qs := range []string{"", "x=1", "p=/a"} {
			for _, m := range []string{"GET", "POST", ""} {
				for _, h := range []map[string]string{nil, {"h": "1"}} {
					out = append(out, c04Req{Host: "a.com", Path: p, Method: m, Headers: h, Query: qs})
				}
			}
		}
	}
	return out
}

func TestVerifC04HTTPRuleBranches(t *testing.T) {
	c04Quiet()
	p := vreport.Begin("C04", "http-rule-branches", time.Duration(vreport.Pick(3, 10))*time.Minute)
	alpha := c04HTTPRules(vreport.Thorough())
	reqs := c04HTTPRequests()
	maxLen := vreport.Pick(2, 3)
	catchAll := c04Rule{Kind: "prefix", Pattern: "/"}
	complete := vreport.Run(p,
		func(yield func(c04RouteCase) bool) {
			c04GenRuleLists(alpha, maxLen, func(rs []c04Rule) bool {
				// with and without a catch-all behind the list
				if !yield(c04RouteCase{Rules: rs}) {
					return false
				}
				return yield(c04RouteCase{Rules: append(append([]c04Rule(nil), rs...), catchAll)})
			})
		},
		func(p *vreport.Part, c c04RouteCase) { c04CheckRoutesX(p, c, reqs, "") })
	var names []string
	for _, r := range alpha {
		names = append(names, r.String())
	}
	p.End(complete,
		fmt.Sprintf("every ordered list of <=%d rules (with repetition) over %d rules [%s], alone and followed by a catch-all prefix rule, x %d requests (paths [/a /a/ /A /ab /b /x/a /%%61 /a%%2Fb / empty] x query string [none x=1 p=/a] x methods [GET POST empty] x header h [absent 1])", maxLen, len(alpha), strings.Join(names, " | "), len(reqs)),
		"cartesian product; path rules are evaluated on the path variable only (never the query string); an empty path matches no path/prefix/anchored-regex rule; undecided and only enumerated: letter case, percent-encoding where raw and decoded readings differ, unanchored regex where search and whole-path readings differ, header matchers whose regex does not compile; distinct = (rule list, reference verdicts); outcome = position selected / decided")
}

// c04WithDebugLogs runs f with the loggers of pkg/router at DEBUG, to /dev/null.
func c04WithDebugLogs(f func()) error {
	savedD, savedP := mosnlog.DefaultLogger, mosnlog.Proxy
	savedPD, savedPC := pkglog.DefaultLogger, pkglog.DefaultContextLogger
	defer func() {
		mosnlog.DefaultLogger, mosnlog.Proxy = savedD, savedP
		pkglog.DefaultLogger, pkglog.DefaultContextLogger = savedPD, savedPC
	}()
	if err := mosnlog.InitDefaultLogger("/dev/null", mosnlog.DEBUG); err != nil {
		return err
	}
	mosnlog.DefaultLogger.SetLogLevel(mosnlog.DEBUG)
	mosnlog.Proxy.SetLogLevel(mosnlog.DEBUG)
	f()
	return nil
}

// c04CheckDefaultHandler: the default route handler on a rule list whose
// clusters (r0, r1, ...) do not exist: the route is an admitted one, no snapshot.
func c04CheckDefaultHandler(p *vreport.Part, c c04RouteCase, reqs []c04Req, cm *c04CM) {
	cfg := c04VHostConfig([][]string{{"*"}}, func(int) []v2.Router {
		var out []v2.Router
		for k, r := range c.Rules {
			out = append(out, c04Router(r, fmt.Sprintf("r%d", k)))
		}
		return out
	})
	rs, err, pan := c04NewRouters(cfg)
	if pan != "" || err != nil {
		return // reported by c04CheckRoutesX
	}
	if c.Req != nil {
		reqs = []c04Req{*c.Req}
	}
	lkey := c04RulesKey(c.Rules)
	for _, q := range reqs {
		q := q
		cc := c04RouteCase{Rules: c.Rules, Req: &q}
		adm, verdict := c04RefRoute(c.Rules, q)
		got, snap, pan := func() (got string, snap bool, pan string) {
			defer func() {
				if r := recover(); r != nil {
					pan = fmt.Sprint(r)
				}
			}()
			ctx, h := c04Ctx(q)
			s, r := GetMakeHandlerFunc("").DoRouteHandler(ctx, h, rs, cm)
			return c04Cluster(ctx, r), s != nil, ""
		}()
		if pan != "" {
			p.Violation("handler: DoRouteHandler panics (default handler)", fmt.Sprintf("rules [%s] request %s: panic %s", lkey, q, pan), cc)
			continue
		}
		gotIdx := -1
		if got != "" {
			fmt.Sscanf(got, "r%d", &gotIdx)
		}
		if !c04In(adm, gotIdx) || snap {
			p.Violation("handler: default handler's route differs from the first matching rule", fmt.Sprintf("rules [%s] request %s: reference verdicts %v admit %v, handler returned route %d snapshot=%v", lkey, q, verdict, adm, gotIdx, snap), cc)
		}
	}
}

func TestVerifC04DebugLogLevel(t *testing.T) {
	c04Quiet()
	p := vreport.Begin("C04", "debug-log-level", 3*time.Minute)
	d := func(es ...c04Dsl) c04Rule { return c04Rule{Kind: "dsl", Dsl: es} }
	alpha := []c04Rule{
		{Kind: "path", Pattern: "/a"},
		{Kind: "prefix", Pattern: "/"},
		{Kind: "prefix", Pattern: "/a", Headers: []c04Hdr{c04HdrH1}},
		{Kind: "prefix", Pattern: "/", Headers: []c04Hdr{c04HdrGET}},
		{Kind: "regex", Pattern: "^/a.+$"},
		{Kind: "variable", Vars: []c04Var{{Name: types.VarMethod, Value: "POST", Model: "and"}, {Name: types.VarPath, Regex: "^/a.*$"}}},
		{Kind: "variable", Vars: []c04Var{{Name: types.VarMethod, Value: "POST", Model: "or"}, {Name: types.VarPath, Value: "/b"}}},
		{Kind: "rpc", Headers: []c04Hdr{c04HdrH2}},
		{Kind: "rpc", Headers: []c04Hdr{c04HdrSvc}},
		d(c04DPathA),
		d(c04DHdr1),
		d(c04DGet, c04DHdr1),
		d(c04DRawBad, c04DHdr1), // compiled list shorter than the configured one
		d(c04DHdr1, c04DRawBad, c04DGet),
		d(c04DRawInf),
	}
	reqs := c04Requests()
	cm := c04HandlerSetup(2)
	var ran bool
	complete := false
	err := c04WithDebugLogs(func() {
		ran = true
		complete = vreport.Run(p,
			func(yield func(c04RouteCase) bool) {
				c04GenRuleLists(alpha, 2, func(rs []c04Rule) bool { return yield(c04RouteCase{Rules: rs}) })
			},
			func(p *vreport.Part, c c04RouteCase) {
				c04CheckRoutesX(p, c, reqs, "")
				c04CheckDefaultHandler(p, c, reqs, cm)
			})
	})
	if err != nil || !ran {
		t.Fatalf("C04 harness: cannot switch the loggers to DEBUG: %v", err)
	}
	c04Quiet()
	var names []string
	for _, r := range alpha {
		names = append(names, r.String())
	}
	p.End(complete,
		fmt.Sprintf("loggers of pkg/router at DEBUG (output /dev/null): every ordered list of <=2 rules over %d rules of all kinds [%s] x %d requests", len(alpha), strings.Join(names, " | "), len(reqs)),
		"cartesian product; same oracle as route-order / dsl-order: the result does not depend on the log level; distinct = (rule list, reference verdicts)")
}
