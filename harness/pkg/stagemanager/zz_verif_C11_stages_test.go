//go:build verif

package stagemanager

import (
	"errors"
	"fmt"
	"os"
	"reflect"
	"runtime"
	"sort"
	"strings"
	"syscall"
	"testing"
	"time"

	"github.com/urfave/cli"

	v2 "mosn.io/mosn/pkg/config/v2"
	"mosn.io/mosn/pkg/configmanager"
	"mosn.io/mosn/pkg/log"
	"mosn.io/mosn/pkg/server/pid"
	"mosn.io/mosn/pkg/verifrt/vreport"
	"mosn.io/mosn/pkg/verifrt/vrt"
	pkglog "mosn.io/pkg/log"
)

// C11, unit "stages": the ORDER in which MOSN reacts to SIGTERM / SIGHUP / SIGINT /
// SIGQUIT and to a new MOSN announcing itself on reconfig.sock - the REAL
// StageManager (package variable stm, reset per execution) with a recording
// fake Application and recording stage callbacks, run under the controlled
// scheduler on the virtual clock (rewrite set c11stages: every lock, WaitGroup,
// channel, timer and sleep of pkg/stagemanager is a scheduling point).
//
// Threads of one execution (who calls NoticeStop in a real MOSN, read from
// pkg/server/keeper/serverkeeper.go, pkg/server/reconfigure.go, pkg/mosn/mosn.go):
//
//	main  stm.RunAll() = Run(); WaitFinish(); Stop()        (cmd/mosn/main/control.go)
//	K     the keeper goroutine: ONE goroutine that takes SIGTERM / SIGHUP / SIGQUIT
//	      off the signal channel and handles them one after the other:
//	      term -> NoticeStop(GracefulStop), hup -> NoticeStop(Reload), quit -> NoticeStop(Stop)
//	I     the goroutine of catchSignalsPosix: one SIGINT -> NoticeStop(Stop), then it ends
//	L     server.ReconfigureListener, started by Mosn.Start() together with
//	      RegisterUpgradeHandler: every new MOSN that connects -> NoticeStop(Upgrade)
//	T0    the harness: delivers the events of the history
//
// A goroutine that panics inside NoticeStop ends (utils.GoWithRecover without a
// handler / the recover of ReconfigureListener): its later signals are never
// handled. That is modelled.
//
// Events: run | term | quit | hup+ (fork of the new server succeeds: /bin/true is
// executed) | hup- (fork fails) | int | up+ / up- (a new MOSN connects; the
// registered upgrade handler will report success / failure after 2.5s of virtual
// time) | tick (0.9s of virtual time pass). An event is delivered when nothing
// but timers is left to run (sequential), or - flag with_previous - together
// with the previous one, so that the two notices are handled concurrently
// (different goroutines) or back to back (same goroutine); below every history
// the schedules with <= Bound preemptions are executed. app.Shutdown() takes
// 0.7s of virtual time (the drain), so notices also arrive during the drain
// and during the upgrade handler in the sequential mode.
//
// Process exit: Stop() ends in os.Exit for most histories; the harness ends the
// process where Stop() calls SetState(Stopped) (a registered state callback
// panics with a sentinel that the thread wrapper recovers; logger.CloseAll and
// os.Exit themselves are not executed). From then on every other thread is
// dead: it parks at its next callback.
//
// Breadth-first search: a state is the canonical projection (key()) of the
// execution at the end of a history on the default schedule; successors are
// produced by replaying history + one event (or + a pair delivered together)
// on a fresh StageManager.

const (
	c11sPart    = "stages"
	c11sDrain   = 700 * time.Millisecond
	c11sHandler = 2500 * time.Millisecond
	c11sTick    = 900 * time.Millisecond
)

func init() {
	// a forked copy of this test binary (StartNewServer executes os.Args[0]; the harness points
	// os.Args at /bin/true, this is the second line of defence) must do nothing
	if os.Getenv("VERIF_C11_FORKED") == "1" {
		os.Exit(0)
	}
}

type c11sCfg struct {
	BeforeErr   int  `json:"before_stop_error,omitempty"` // k: the k-th before-stop callback returns an error
	GracefulErr int  `json:"graceful_error,omitempty"`    // 1: the first graceful-stop callback returns an error; 2: app.Shutdown does
	InitErr     bool `json:"init_error,omitempty"`
	InheritErr  bool `json:"inherit_error,omitempty"`
	FromUpgrade bool `json:"from_upgrade,omitempty"`
	NilHandler  bool `json:"nil_handler,omitempty"` // L exists but no upgrade handler is registered
}

type c11sEvt struct {
	Name string `json:"ev"`
	With bool   `json:"with_previous,omitempty"`
}

type c11sCase struct {
	Cfg     c11sCfg   `json:"cfg"`
	Events  []c11sEvt `json:"events"`
	Bound   int       `json:"bound"`
	Choices []int     `json:"choices,omitempty"`
}

func (c c11sCase) hist() string {
	var s []string
	for _, e := range c.Events {
		if e.With {
			s = append(s, "&"+e.Name)
		} else {
			s = append(s, e.Name)
		}
	}
	return strings.Join(s, " ")
}

var c11sStateNames = map[State]string{Nil: "Nil", ParamsParsed: "ParamsParsed", Initing: "Initing", PreStart: "PreStart", Starting: "Starting",
	AfterStart: "AfterStart", Running: "Running", BeforeStop: "BeforeStop", GracefulStopping: "GracefulStopping", Stopping: "Stopping",
	AfterStop: "AfterStop", Stopped: "Stopped", StartingNewServer: "StartingNewServer", Upgrading: "Upgrading"}

func c11sSN(s State) string {
	if n, ok := c11sStateNames[s]; ok {
		return n
	}
	return fmt.Sprintf("State(%d)", int(s))
}

var c11sActionNames = map[StopAction]string{Stop: "Stop", GracefulStop: "GracefulStop", Reload: "Reload", Upgrade: "Upgrade"}

type c11sRec struct {
	K  string
	Th string
	St State      // the real stm.state when the record was made
	A  StopAction // the real stm.stopAction then
	T  time.Duration
}

type c11sSig struct {
	name   string
	action StopAction
	ok     bool
}

type c11sExit struct{}

type c11sWorld struct {
	c      c11sCase
	log    []c11sRec
	exited bool
	exitBy string
	exitCF int // stm.exitCode at exit

	kq, lq, iq          []c11sSig
	kBusy, lBusy, iBusy string
	kDead, lDead, iDead bool
	lAlive, iUsed       bool
	mainStarted         bool
	mainDead            bool
	upOK                bool
	upOKDelivered       bool
	dropped             []string

	reloadDL, handlerDL, drainDL time.Duration

	// snapshots
	endKey        string // canonical state at the end of the history
	end           *c11sWorld
	settledExited bool
	settledState  State
	settledQueues string
	settledWg     int64
	closingSent   bool
	finalExited   bool
	finalState    State
}

var c11sCur *c11sWorld
var c11sArgsOK, c11sArgsFail, c11sArgsOrig []string

func c11sThread() string {
	if t := vrt.Cur(); t != nil {
		return t.Name
	}
	return "?"
}

func (w *c11sWorld) park() {
	vrt.WaitUntil("process-exited", func() bool { return false })
}

// rec is a callback of the code under test: a scheduling point, then the record.
func (w *c11sWorld) rec(k string) {
	if w.exited {
		w.park()
	}
	vrt.Yield()
	if w.exited {
		w.park()
	}
	w.log = append(w.log, c11sRec{K: k, Th: c11sThread(), St: stm.state, A: stm.stopAction, T: vrt.Now()})
}

func (w *c11sWorld) sleep(d time.Duration) {
	vrt.Sleep(d)
	if w.exited {
		w.park()
	}
}

// onState is registered with RegisterOnStateChanged. The record is made at once (SetState has just
// written the state; no scheduling point lies between the decision that led here and the record), the
// scheduling point follows.
func (w *c11sWorld) onState(s State) {
	if w.exited {
		w.park()
	}
	w.log = append(w.log, c11sRec{K: "state:" + c11sSN(s), Th: c11sThread(), St: stm.state, A: stm.stopAction, T: vrt.Now()})
	if s == Stopped {
		// Stop(): logger.CloseAll(); os.Exit(exitCode) / os.Exit(1) / return to main, which returns
		w.exited = true
		w.exitBy = c11sThread()
		w.exitCF = stm.exitCode
		w.log = append(w.log, c11sRec{K: "exit", Th: c11sThread(), St: stm.state, A: stm.stopAction, T: vrt.Now()})
		panic(c11sExit{})
	}
	vrt.Yield()
	if w.exited {
		w.park()
	}
}

func (w *c11sWorld) spawn(name string, fn func()) {
	vrt.GoNamed(name, func() {
		defer func() {
			r := recover()
			if r == nil || vrt.TearingDown() {
				return
			}
			if _, ok := r.(c11sExit); ok {
				return
			}
			msg := fmt.Sprint(r)
			if len(msg) > 80 {
				msg = msg[:80]
			}
			w.log = append(w.log, c11sRec{K: "died:" + msg, Th: name, St: stm.state, A: stm.stopAction, T: vrt.Now()})
			switch name {
			case "K":
				w.kDead = true
			case "L":
				w.lDead = true
			case "I":
				w.iDead = true
			case "main":
				w.mainDead = true
			}
		}()
		fn()
	})
}

// ---- the fake application

type c11sApp struct{ w *c11sWorld }

func (a *c11sApp) Init(*v2.MOSNConfig) error {
	a.w.rec("app.Init")
	if a.w.c.Cfg.InitErr {
		return errors.New("verif: init fails")
	}
	return nil
}

func (a *c11sApp) Start() {
	w := a.w
	w.rec("app.Start")
	// Mosn.Start: RegisterUpgradeHandler(server.ReconfigureHandler); go server.ReconfigureListener()
	if !w.c.Cfg.NilHandler {
		RegisterUpgradeHandler(w.handler)
	}
	w.lAlive = true
	w.spawn("L", func() { w.sigLoop("L", &w.lq, &w.lBusy) })
}

func (a *c11sApp) InheritConnections() error {
	a.w.rec("app.InheritConnections")
	if a.w.c.Cfg.InheritErr {
		return errors.New("verif: inherit fails")
	}
	return nil
}

func (a *c11sApp) Shutdown() error {
	w := a.w
	w.rec("app.Shutdown-begin")
	w.drainDL = vrt.Now() + c11sDrain
	w.sleep(c11sDrain)
	w.drainDL = 0
	w.rec("app.Shutdown-end")
	if w.c.Cfg.GracefulErr == 2 {
		return errors.New("verif: shutdown fails")
	}
	return nil
}

func (a *c11sApp) Close(isUpgrade bool) { a.w.rec(fmt.Sprintf("app.Close(%v)", isUpgrade)) }
func (a *c11sApp) IsFromUpgrade() bool  { return a.w.c.Cfg.FromUpgrade }

func (w *c11sWorld) handler() error {
	w.rec("handler-begin")
	w.handlerDL = vrt.Now() + c11sHandler
	w.sleep(c11sHandler)
	w.handlerDL = 0
	if w.upOK {
		w.rec("handler-end:ok")
		return nil
	}
	w.rec("handler-end:fail")
	return errors.New("verif: new mosn start failed")
}

// sigLoop is a goroutine that handles its signals one after the other.
func (w *c11sWorld) sigLoop(name string, q *[]c11sSig, busy *string) {
	for {
		vrt.WaitUntil("signal", func() bool { return len(*q) > 0 })
		if w.exited {
			w.park()
		}
		s := (*q)[0]
		*q = (*q)[1:]
		*busy = s.name
		w.rec("notice-begin:" + s.name)
		// from here to the first statement of NoticeStop (stm.stopAction = action) there is no scheduling point
		if s.action == Reload {
			if s.ok {
				os.Args = c11sArgsOK
			} else {
				os.Args = c11sArgsFail
			}
			if stm.state == Running {
				w.reloadDL = vrt.Now() + 5*time.Second
			}
		}
		if s.action == Upgrade {
			w.upOK = s.ok
		}
		NoticeStop(s.action)
		if s.action == Reload {
			w.reloadDL = 0
		}
		w.rec("notice-end:" + s.name)
		*busy = ""
		if name == "I" {
			return
		}
	}
}

func (w *c11sWorld) setup() {
	stm = StageManager{state: Nil, data: Data{}, paramsStages: []func(*cli.Context){}, initStages: []func(*v2.MOSNConfig){},
		preStartStages: []func(Application){}, startupStages: []func(Application){}, newServerC: make(chan bool, 1)}
	app := &c11sApp{w: w}
	s := InitStageManager(&cli.Context{}, "", app)
	RegisterOnStateChanged(w.onState)
	s.AppendParamsParsedStage(func(*cli.Context) { w.rec("params-stage") })
	s.AppendInitStage(func(*v2.MOSNConfig) { w.rec("init-stage") })
	s.AppendPreStartStage(func(Application) { w.rec("pre-start-stage") })
	s.AppendStartStage(func(Application) { w.rec("start-stage") })
	s.AppendAfterStartStage(func(Application) { w.rec("after-start-stage") })
	for i := 1; i <= 2; i++ {
		i := i
		s.AppendBeforeStopStage(func(a StopAction, _ Application) error {
			w.rec(fmt.Sprintf("before-stop#%d(%s)", i, c11sActionNames[a]))
			if w.c.Cfg.BeforeErr == i {
				return errors.New("verif: before-stop fails")
			}
			return nil
		})
		s.AppendGracefulStopStage(func(Application) error {
			w.rec(fmt.Sprintf("graceful-cb#%d", i))
			if w.c.Cfg.GracefulErr == 1 && i == 1 {
				return errors.New("verif: graceful-stop callback fails")
			}
			return nil
		})
		s.AppendAfterStopStage(func(Application) { w.rec(fmt.Sprintf("after-stop#%d", i)) })
	}
	w.spawn("K", func() { w.sigLoop("K", &w.kq, &w.kBusy) })
	w.spawn("I", func() { w.sigLoop("I", &w.iq, &w.iBusy) })
	vrt.QuiesceNoTimers() // both wait for their first signal
}

func (w *c11sWorld) timePending() bool { return w.reloadDL != 0 || w.handlerDL != 0 || w.drainDL != 0 }

// enabled: can the event be delivered in this state (evaluated on the state before the event, for a
// pair on the state before the pair)
func (w *c11sWorld) enabled(ev string) bool {
	if w.exited {
		return false
	}
	switch ev {
	case "run":
		return !w.mainStarted
	}
	if !w.mainStarted && len(w.c.Events) >= 1 {
		// at most one notice before the run: the stage manager is in state Nil, where a notice only
		// leaves its action behind
		return false
	}
	switch ev {
	case "int":
		return !w.iUsed
	case "up+", "up-":
		// a third process is out of scope: once a new MOSN that will succeed has connected, no further one does
		return w.lAlive && !w.lDead && !w.upOKDelivered
	case "tick":
		return w.timePending()
	case "term", "quit", "hup+", "hup-":
		return !w.kDead
	}
	return false
}

func (w *c11sWorld) deliver(ev string) {
	if w.exited {
		w.dropped = append(w.dropped, ev)
		return
	}
	switch ev {
	case "run":
		if w.mainStarted {
			w.dropped = append(w.dropped, ev)
			return
		}
		w.mainStarted = true
		w.spawn("main", func() { stm.RunAll() })
	case "term", "closing-term":
		w.kq = append(w.kq, c11sSig{name: ev, action: GracefulStop})
	case "quit":
		w.kq = append(w.kq, c11sSig{name: ev, action: Stop})
	case "hup+":
		w.kq = append(w.kq, c11sSig{name: ev, action: Reload, ok: true})
	case "hup-":
		w.kq = append(w.kq, c11sSig{name: ev, action: Reload})
	case "int":
		if w.iUsed {
			w.dropped = append(w.dropped, ev)
			return
		}
		w.iUsed = true
		w.iq = append(w.iq, c11sSig{name: ev, action: Stop})
	case "up+", "up-":
		if !w.lAlive || w.upOKDelivered {
			// nobody listens on reconfig.sock (yet): the new MOSN does not take this one for an old MOSN
			w.dropped = append(w.dropped, ev)
			return
		}
		if ev == "up+" {
			w.upOKDelivered = true
		}
		w.lq = append(w.lq, c11sSig{name: ev, action: Upgrade, ok: ev == "up+"})
	case "tick":
		vrt.Sleep(c11sTick)
	default:
		panic("verif: unknown event " + ev)
	}
}

func c11sWgN() int64 {
	return reflect.ValueOf(&stm.wg).Elem().FieldByName("n").Int()
}

func (w *c11sWorld) count(prefix string) int {
	n := 0
	for _, r := range w.log {
		if strings.HasPrefix(r.K, prefix) {
			n++
		}
	}
	return n
}

func c11sSat(n int) int {
	if n > 2 {
		return 2
	}
	return n
}

// key is the canonical state: everything the future of the execution depends on - the stage
// manager's fields, where every thread stands (its last record: between two records a thread's code
// position is determined, and at a quiescence it is blocked), the queues, the pending virtual
// deadlines relative to now - and what the oracles remember of the past (which kinds of notices have
// begun, saturated counts of the application calls). Two histories with the same key have the same
// successors and the same verdicts on them. After the exit nothing can happen: one terminal state
// per exit path.
func (w *c11sWorld) key() string {
	if w.exited {
		closeArg := ""
		for _, r := range w.log {
			if strings.HasPrefix(r.K, "app.Close") {
				closeArg = r.K
			}
		}
		return fmt.Sprintf("EXITED by=%s exitCodeField=%d drained=%v %s", w.exitBy, w.exitCF, w.count("app.Shutdown-end") > 0, closeArg)
	}
	last := map[string]string{}
	begun := map[string]bool{}
	for _, r := range w.log {
		last[r.Th] = r.K
		if strings.HasPrefix(r.K, "notice-begin:") {
			begun[strings.TrimPrefix(r.K, "notice-begin:")] = true
		}
	}
	var ths []string
	for th, k := range last {
		ths = append(ths, th+"@"+k)
	}
	sort.Strings(ths)
	var bs []string
	for b := range begun {
		bs = append(bs, b)
	}
	sort.Strings(bs)
	qn := func(q []c11sSig) string {
		var s []string
		for _, x := range q {
			s = append(s, x.name)
		}
		return strings.Join(s, ",")
	}
	rem := func(d time.Duration) time.Duration {
		if d == 0 {
			return 0
		}
		return d - vrt.Now()
	}
	return fmt.Sprintf("state=%s action=%s exitCode=%d wg=%d newServerC=%d main=%v/%v K=%q/%v[%s] L=%v/%q/%v[%s] I=%v/%q/%v[%s] upOKdelivered=%v timers=%d reload=%v handler=%v drain=%v threads=%v begun=%v shutdown=%d close=%d handlerOK=%d handlerFail=%d",
		c11sSN(stm.state), c11sActionNames[stm.stopAction], stm.exitCode, c11sWgN(), len(stm.newServerC), w.mainStarted, w.mainDead,
		w.kBusy, w.kDead, qn(w.kq), w.lAlive, w.lBusy, w.lDead, qn(w.lq), w.iUsed, w.iBusy, w.iDead, qn(w.iq), w.upOKDelivered,
		vrt.ArmedTimers(), rem(w.reloadDL), rem(w.handlerDL), rem(w.drainDL), ths, bs,
		c11sSat(w.count("app.Shutdown-begin")), c11sSat(w.count("app.Close")), c11sSat(w.count("handler-end:ok")), c11sSat(w.count("handler-end:fail")))
}

func (w *c11sWorld) body() {
	w.setup()
	ev := w.c.Events
	for i, e := range ev {
		w.deliver(e.Name)
		if i+1 < len(ev) && ev[i+1].With {
			continue
		}
		vrt.QuiesceNoTimers()
	}
	w.endKey = w.key()
	snap := *w
	w.end = &snap // enabledness of the next event is decided on the state at the end of the history
	// closing: let every timer fire, look, then ask for a graceful stop
	vrt.Quiesce()
	w.settledExited, w.settledState = w.exited, stm.state
	w.settledWg = c11sWgN()
	w.settledQueues = fmt.Sprintf("K[%d] L[%d] I[%d]", len(w.kq), len(w.lq), len(w.iq))
	if !w.exited && w.mainStarted {
		w.closingSent = true
		w.deliver("closing-term")
		vrt.Quiesce()
	}
	w.finalExited, w.finalState = w.exited, stm.state
}

// ---- oracles

type c11sFinding struct{ key, detail string }

func (w *c11sWorld) logText() string {
	var b strings.Builder
	for i, r := range w.log {
		fmt.Fprintf(&b, "%d:%s[%s@%dms st=%s] ", i, r.K, r.Th, r.T/time.Millisecond, c11sSN(r.St))
	}
	return b.String()
}

func (w *c11sWorld) judge() []c11sFinding {
	var out []c11sFinding
	lg := w.log
	ctx := ""
	add := func(key, detail string) { out = append(out, c11sFinding{key, ctx + " " + detail}) }
	first := func(prefix string) int {
		for i, r := range lg {
			if strings.HasPrefix(r.K, prefix) {
				return i
			}
		}
		return -1
	}
	all := func(prefix string) []int {
		var x []int
		for i, r := range lg {
			if strings.HasPrefix(r.K, prefix) {
				x = append(x, i)
			}
		}
		return x
	}
	cfg := w.c.Cfg
	startErr := cfg.InitErr || cfg.InheritErr
	exitIdx := first("exit")
	appStart := first("app.Start")
	// the stop decision of the exiting thread: Stop() reads stopAction, then either enters the graceful
	// stage (state:GracefulStopping) or goes on (state:Stopping); both records are made without a
	// scheduling point after the read
	decision := -1
	if exitIdx >= 0 {
		th := lg[exitIdx].Th
		for i, r := range lg {
			if r.Th == th && (r.K == "state:GracefulStopping" || r.K == "state:Stopping") {
				decision = i
				break
			}
		}
	}
	// kinds of notices that began before the exit (context of a key)
	kinds := map[string]bool{}
	for i, r := range lg {
		if strings.HasPrefix(r.K, "notice-begin:") && (exitIdx < 0 || i < exitIdx) {
			n := strings.TrimPrefix(r.K, "notice-begin:")
			if n == "closing-term" {
				n = "term"
			}
			kinds[n] = true
		}
	}
	var ks []string
	for k := range kinds {
		ks = append(ks, k)
	}
	sort.Strings(ks)
	ctx = "[notices begun: " + strings.Join(ks, ",") + "]"
	immediate := func(before int) bool { // an immediate-stop notice (SIGQUIT / SIGINT) began before index
		for i, r := range lg {
			if i >= before {
				break
			}
			if r.K == "notice-begin:quit" || r.K == "notice-begin:int" {
				return true
			}
		}
		return false
	}
	stopAsked := func(before int) bool { // any notice that asks the process to stop began before index
		for i, r := range lg {
			if i >= before {
				break
			}
			if r.K == "notice-begin:quit" || r.K == "notice-begin:int" || r.K == "notice-begin:term" || r.K == "notice-begin:closing-term" {
				return true
			}
		}
		return false
	}

	// (a0) every handled notice runs the before-stop callbacks once each, in registration order, with its action, first
	for _, i := range all("notice-begin:") {
		th := lg[i].Th
		name := strings.TrimPrefix(lg[i].K, "notice-begin:")
		act := map[string]string{"term": "GracefulStop", "closing-term": "GracefulStop", "quit": "Stop", "int": "Stop", "hup+": "Reload", "hup-": "Reload", "up+": "Upgrade", "up-": "Upgrade"}[name]
		want := []string{"before-stop#1(" + act + ")", "before-stop#2(" + act + ")"}
		var got []string
		cut := true
		for j := i + 1; j < len(lg); j++ {
			if lg[j].Th != th {
				continue
			}
			if lg[j].K == "state:BeforeStop" {
				continue
			}
			if strings.HasPrefix(lg[j].K, "before-stop#") {
				got = append(got, lg[j].K)
				continue
			}
			cut = false
			break
		}
		okPrefix := len(got) <= len(want)
		for k := range got {
			if k < len(want) && got[k] != want[k] {
				okPrefix = false
			}
		}
		if !okPrefix || (!cut && len(got) != len(want)) {
			add("before-stop stage: the callbacks do not run once each, in registration order, with the action of the notice, before the notice takes effect",
				fmt.Sprintf("notice %s at %d: before-stop records %v, want %v; log: %s", name, i, got, want, w.logText()))
		}
	}

	sb, se := all("app.Shutdown-begin"), all("app.Shutdown-end")
	cl := all("app.Close")
	as := all("after-stop#")
	// (a1) SIGTERM noticed while serving, before the stop decision, no immediate-stop signal before the decision: drain before Close / after-stop / exit
	if exitIdx >= 0 && decision >= 0 && !startErr {
		term := -1
		for _, i := range append(all("notice-begin:term"), all("notice-begin:closing-term")...) {
			if appStart >= 0 && appStart < i && i < decision {
				term = i
				break
			}
		}
		if term >= 0 && !immediate(decision) {
			switch {
			case len(se) == 0:
				add("graceful stop: SIGTERM was noticed while serving and no immediate-stop signal, yet the process reaches Stopped without app.Shutdown (listeners keep accepting until the close, nothing is drained): the stop action Stop() read was "+c11sActionNames[lg[decision].A],
					fmt.Sprintf("history %q schedule %v: term noticed at %d, stop decision at %d %s; log: %s", w.c.hist(), w.c.Choices, term, decision, ctx, w.logText()))
			case (len(cl) > 0 && cl[0] < se[0]) || (len(as) > 0 && as[0] < se[0]):
				add("graceful stop: app.Close or an after-stop stage runs before app.Shutdown (the drain) has returned",
					fmt.Sprintf("history %q schedule %v: log: %s", w.c.hist(), w.c.Choices, w.logText()))
			}
		}
	}
	// (a2) the graceful-stop stage: Shutdown, then every registered callback once in registration order, then Close -
	// where the thread that ran the stage is the one that reaches Stopped (a stop at once asked for by
	// SIGINT / SIGQUIT while another goroutine drains legitimately ends the process under it)
	if len(sb) > 0 && exitIdx >= 0 && lg[sb[0]].Th == lg[exitIdx].Th {
		g1, g2 := all("graceful-cb#1"), all("graceful-cb#2")
		bad := len(g1) != 1 || len(g2) != 1 || len(se) == 0
		if !bad {
			bad = !(se[0] < g1[0] && g1[0] < g2[0]) || (len(cl) > 0 && cl[0] < g2[0])
		}
		if bad {
			add("graceful-stop stage: the registered callbacks do not run exactly once each, in registration order, after app.Shutdown and before app.Close",
				fmt.Sprintf("history %q schedule %v: shutdown-end %v cb#1 %v cb#2 %v close %v; log: %s", w.c.hist(), w.c.Choices, se, g1, g2, cl, w.logText()))
		}
	}
	// (a3) nothing twice (not compared once SIGINT / SIGQUIT asked for a stop at once: a second goroutine may
	// then run Stop() next to one that is draining); Close before the after-stop stages
	if (len(sb) > 1 || len(cl) > 1 || len(all("after-stop#1")) > 1 || len(all("after-stop#2")) > 1) && !immediate(len(lg)) {
		add("the application is shut down / closed / cleaned up twice",
			fmt.Sprintf("history %q schedule %v: shutdown-begin %v close %v after-stop %v; log: %s", w.c.hist(), w.c.Choices, sb, cl, as, w.logText()))
	}
	if len(cl) > 0 && len(as) > 0 && as[0] < cl[0] {
		add("an after-stop stage runs before app.Close", fmt.Sprintf("history %q schedule %v: log: %s", w.c.hist(), w.c.Choices, w.logText()))
	}

	// (d) the main goroutine is released twice before it has run: the counter of the WaitGroup is
	// negative and nothing has been stopped. Under the scheduler main stays blocked in WaitFinish;
	// the real sync.WaitGroup has released main at the first Done, and main panics when it wakes up
	// ("WaitGroup is reused before previous Wait has returned"; a main that had not reached Wait yet
	// blocks for ever): either way the stop sequence never runs. One finding for the class.
	doubleRelease := w.mainStarted && !w.settledExited && w.settledWg < 0
	if doubleRelease {
		add("two notices that each release the main goroutine (stop / graceful stop / a successful upgrade) are handled before it has woken up: the WaitGroup counter goes negative and the stop sequence never runs",
			fmt.Sprintf("history %q schedule %v: settled state %s wg=%d; log: %s", w.c.hist(), w.c.Choices, c11sSN(w.settledState), w.settledWg, w.logText()))
	}

	// (b) upgrade
	if !startErr {
		for _, hb := range all("handler-begin") {
			th := lg[hb].Th
			he := -1
			for j := hb + 1; j < len(lg); j++ {
				if lg[j].Th == th && strings.HasPrefix(lg[j].K, "handler-end:") {
					he = j
					break
				}
			}
			// (b1) the handler starts while the old application is serving, and nothing is shut down before it reported success
			end := he
			if end < 0 {
				end = len(lg)
			}
			for j := 0; j < end; j++ {
				k := lg[j].K
				if strings.HasPrefix(k, "app.Shutdown-begin") || strings.HasPrefix(k, "app.Close") || strings.HasPrefix(k, "after-stop#") || k == "exit" {
					if !stopAsked(j) {
						prevOK := false // a previous upgrade that succeeded explains it
						for _, x := range all("handler-end:ok") {
							if x < j {
								prevOK = true
							}
						}
						if !prevOK {
							add("upgrade: the old application is shut down / closed before the upgrade handler reported success, and nobody asked it to stop",
								fmt.Sprintf("history %q schedule %v: %s at %d, handler %d..%d; log: %s", w.c.hist(), w.c.Choices, k, j, hb, he, w.logText()))
						}
						break
					}
				}
			}
			// (b2) the handler failed: nothing is stopped until somebody asks for it or a later upgrade succeeds
			if he >= 0 && lg[he].K == "handler-end:fail" {
				for j := he + 1; j < len(lg); j++ {
					k := lg[j].K
					if k == "handler-end:ok" {
						break
					}
					if strings.HasPrefix(k, "app.Shutdown-begin") || strings.HasPrefix(k, "app.Close") || strings.HasPrefix(k, "after-stop#") || k == "exit" {
						if !stopAsked(j) && len(all("handler-end:ok")) == 0 {
							add("upgrade failed (no new MOSN took over), yet the old process is shut down / closed although nobody asked it to stop",
								fmt.Sprintf("history %q schedule %v: %s at %d after handler-end:fail at %d; log: %s", w.c.hist(), w.c.Choices, k, j, he, w.logText()))
						}
						break
					}
				}
			}
		}
		// (b2') after a failed upgrade and nothing else that stops: Running again once everything has settled
		if nf, nok := len(all("handler-end:fail")), len(all("handler-end:ok")); nf > 0 && nok == 0 && w.mainStarted && !stopAskedBeforeClosing(lg) {
			if w.settledExited || w.settledState != Running {
				add("upgrade failed: the old process does not return to Running",
					fmt.Sprintf("history %q schedule %v: settled state %s exited=%v; log: %s", w.c.hist(), w.c.Choices, c11sSN(w.settledState), w.settledExited, w.logText()))
			}
		}
		// (b3) the handler reported success: the old process stops without a further signal
		if len(all("handler-end:ok")) > 0 && !w.settledExited && !doubleRelease {
			add("upgrade succeeded: the old process does not stop",
				fmt.Sprintf("history %q schedule %v: settled state %s queues %s; log: %s", w.c.hist(), w.c.Choices, c11sSN(w.settledState), w.settledQueues, w.logText()))
		}
	}

	// (c) a stop notice that began after the stage manager left Nil leads to Stopped; the process can always be stopped
	if w.mainStarted {
		asked := -1
		for i, r := range lg {
			if r.K == "notice-begin:closing-term" {
				break
			}
			if (r.K == "notice-begin:term" || r.K == "notice-begin:quit" || r.K == "notice-begin:int") && r.St != Nil {
				asked = i
				break
			}
		}
		if doubleRelease {
			// reported above
		} else if asked >= 0 && !w.settledExited {
			add("a stop notice (SIGTERM / SIGQUIT / SIGINT) is handled but the process never reaches Stopped",
				fmt.Sprintf("history %q schedule %v: %s at %d; settled state %s wg=%d queues %s; log: %s", w.c.hist(), w.c.Choices, lg[asked].K, asked, c11sSN(w.settledState), w.settledWg, w.settledQueues, w.logText()))
		} else if !w.finalExited {
			add("the process can not be stopped gracefully any more: a final SIGTERM never leads to Stopped",
				fmt.Sprintf("history %q schedule %v: final state %s wg=%d kDead=%v K busy with %q queue %d; log: %s", w.c.hist(), w.c.Choices, c11sSN(w.finalState), c11sWgN(), w.kDead, w.kBusy, len(w.kq), w.logText()))
		}
	}
	return out
}

func stopAskedBeforeClosing(lg []c11sRec) bool {
	for _, r := range lg {
		if r.K == "notice-begin:closing-term" {
			return false
		}
		if r.K == "notice-begin:quit" || r.K == "notice-begin:int" || r.K == "notice-begin:term" {
			return true
		}
	}
	return false
}

// ---- exploration

type c11sRun struct {
	execs    int
	complete bool
	def      *c11sWorld // the execution on the default schedule
}

// c11sReap collects the /bin/true children that stood for new servers (StartNewServer does not wait
// for its child); without blocking, except every 256th call and at the end.
var c11sReapN int

func c11sReap(block bool) {
	c11sReapN++
	flags := syscall.WNOHANG
	if block || c11sReapN&255 == 0 {
		flags = 0
	}
	for {
		var ws syscall.WaitStatus
		pid, err := syscall.Wait4(-1, &ws, flags, nil)
		if err != nil || pid <= 0 {
			return
		}
	}
}

func c11sExplore(p *vreport.Part, c c11sCase, replay bool, maxExecs int) c11sRun {
	var run c11sRun
	opts := vrt.Options{Bound: c.Bound, Delay: true, MaxSteps: 20000, MaxExecs: maxExecs, Trace: replay && os.Getenv("VERIF_DEBUG") != ""}
	if replay {
		opts.Replay = true
		opts.Prefix = c.Choices
	}
	var w *c11sWorld
	st := vrt.Explore(opts, func() {
		w = &c11sWorld{c: c}
		c11sCur = w
		w.body()
	}, func(r *vrt.Result) {
		c11sReap(false)
		p.Eval()
		if opts.Trace {
			fmt.Println(strings.Join(r.Trace, "\n"))
		}
		cc := c
		cc.Choices = append([]int(nil), r.Choices...)
		w.c = cc
		if run.def == nil {
			run.def = w
		}
		if r.Deadlock || len(r.Panics) > 0 || r.StepLimit || r.Diverged != "" {
			p.Violation("harness: execution did not complete", r.String()+fmt.Sprint(r.Panics)+" "+w.logText(), cc)
			return
		}
		outcome := "running"
		if w.settledExited {
			outcome = fmt.Sprintf("exit by=%s drained=%v code=%d", w.exitBy, w.count("app.Shutdown-end") > 0, w.exitCF)
		} else if w.finalExited {
			outcome = "stopped by the closing SIGTERM"
		}
		p.Outcome(w.endKey + "|" + outcome)
		p.Distinct(fmt.Sprintf("%+v|%s|%s", c.Cfg, c.hist(), w.endKey))
		if p.WantSample() {
			p.Sample(map[string]interface{}{"cfg": c.Cfg, "history": c.hist(), "schedule": r.Choices, "end_state": w.endKey, "outcome": outcome})
		}
		for _, f := range w.judge() {
			p.Violation(f.key, f.detail, cc)
		}
	})
	run.execs = st.Executions
	run.complete = st.Complete
	if os.Getenv("VERIF_DEBUG") != "" {
		fmt.Printf("C11S case cfg=%+v hist=%q bound=%d execs=%d complete=%v viol=%d\n", c.Cfg, c.hist(), c.Bound, st.Executions, st.Complete, p.Violations())
	}
	p.AddTraces(st.Executions)
	return run
}

var c11sAlphabet = []string{"run", "term", "quit", "hup+", "hup-", "int", "up+", "up-", "tick"}

func TestVerifC11Stages(t *testing.T) {
	p := vreport.Begin("C11", c11sPart, time.Duration(vreport.Pick(4, 15))*time.Minute)
	// environment of the code under test
	log.DefaultLogger.SetLogLevel(pkglog.FATAL)
	log.StartLogger.SetLogLevel(pkglog.FATAL)
	pkglog.DefaultLogger.SetLogLevel(pkglog.FATAL)
	configmanager.RegisterConfigLoadFunc(func(string) *v2.MOSNConfig { return &v2.MOSNConfig{} })
	defer configmanager.RegisterConfigLoadFunc(configmanager.DefaultConfigLoad)
	pid.SetPid(t.TempDir() + "/mosn.pid")
	c11sArgsOrig = os.Args
	c11sArgsOK = []string{"/bin/true"}
	if _, err := os.Stat("/bin/true"); err != nil {
		c11sArgsOK = []string{"/usr/bin/true"}
		if _, err := os.Stat("/usr/bin/true"); err != nil {
			t.Skip("no /bin/true to stand for the new server")
		}
	}
	c11sArgsFail = []string{"/nonexistent/verif-c11-new-mosn"}
	os.Setenv("VERIF_C11_FORKED", "1")
	os.Args = c11sArgsFail
	defer func() { os.Args = c11sArgsOrig; os.Unsetenv("VERIF_C11_FORKED"); c11sReap(true) }()
	old := runtime.GOMAXPROCS(1)
	defer runtime.GOMAXPROCS(old)

	var rc c11sCase
	if vreport.Replaying() {
		if vreport.ReplayFor("C11", c11sPart, &rc) {
			c11sExplore(p, rc, true, 0)
			p.End(true, "replay", "replay of one recorded history and schedule")
		}
		return
	}

	// bounds per configuration: depth = events of a history (the run included), bound = deviations below a
	// history (sequential or ending in a pair), pairs = every event also with a second one delivered together
	type plan struct {
		cfg          c11sCfg
		depth, bound int
		pairs        bool
	}
	var cfgs []plan
	startFail := []c11sCfg{{InitErr: true}, {InitErr: true, FromUpgrade: true}, {InheritErr: true}, {InheritErr: true, FromUpgrade: true}}
	others := []c11sCfg{{BeforeErr: 1}, {GracefulErr: 1}, {GracefulErr: 2}, {NilHandler: true}, {FromUpgrade: true}}
	if !vreport.Thorough() {
		cfgs = append(cfgs, plan{c11sCfg{}, 4, 1, true})
		for _, c := range others {
			cfgs = append(cfgs, plan{c, 3, 1, false})
		}
		for _, c := range startFail {
			cfgs = append(cfgs, plan{c, 2, 1, true})
		}
	} else {
		// the small configurations first: the plain one takes what is left of the budget
		for _, c := range startFail {
			cfgs = append(cfgs, plan{c, 3, 2, true})
		}
		for _, c := range others {
			cfgs = append(cfgs, plan{c, 3, 2, true})
		}
		cfgs = append(cfgs, plan{c11sCfg{}, 4, 2, true})
	}
	boundText := "plain configuration: histories of <= 4 events, <= 1 deviation; callback-error / nil-handler / from-upgrade configurations: <= 3 events, no pairs, <= 1 deviation; start-failure configurations: <= 2 events, <= 1 deviation"
	if vreport.Thorough() {
		boundText = "plain configuration: histories of <= 4 events (the end states of pairs join the frontier), <= 2 deviations; every other configuration: <= 3 events, <= 2 deviations"
	}
	complete := true
	type node struct {
		hist []c11sEvt
		w    *c11sWorld
	}
	maxPerCase := vreport.Pick(4000, 0)
	for _, cf := range cfgs {
		// the initial state: the empty history
		r0 := c11sExplore(p, c11sCase{Cfg: cf.cfg, Bound: 0}, false, 0)
		seen := map[string]bool{r0.def.endKey: true}
		p.AddStates(1)
		frontier := []node{{nil, r0.def}}
		for d := 1; d <= cf.depth && len(frontier) > 0; d++ {
			var next []node
			for _, n := range frontier {
				for _, e := range c11sAlphabet {
					if !n.w.end.enabled(e) {
						continue
					}
					if p.Expired() {
						complete = false
						break
					}
					h := append(append([]c11sEvt(nil), n.hist...), c11sEvt{Name: e})
					r := c11sExplore(p, c11sCase{Cfg: cf.cfg, Events: h, Bound: cf.bound}, false, maxPerCase)
					if !r.complete {
						complete = false
						p.Count("histories_with_schedule_cap_hit", 1)
					}
					p.AddTransitions(1)
					if r.def != nil && !seen[r.def.endKey] {
						seen[r.def.endKey] = true
						p.AddStates(1)
						next = append(next, node{h, r.def})
					}
					// the same event with a second one delivered together with it
					if d+1 > cf.depth || e == "tick" || !cf.pairs {
						continue
					}
					for _, e2 := range c11sAlphabet {
						if e2 == "tick" || e2 == "run" || !n.w.end.enabled(e2) {
							continue
						}
						if e2 == e && (e == "int" || e == "up+") {
							continue
						}
						if p.Expired() {
							complete = false
							break
						}
						h2 := append(append([]c11sEvt(nil), h...), c11sEvt{Name: e2, With: true})
						r2 := c11sExplore(p, c11sCase{Cfg: cf.cfg, Events: h2, Bound: cf.bound}, false, maxPerCase)
						if !r2.complete {
							complete = false
							p.Count("histories_with_schedule_cap_hit", 1)
						}
						p.AddTransitions(1)
						p.Count("pair_transitions", 1)
						if vreport.Thorough() && r2.def != nil && !seen[r2.def.endKey] && d+2 <= cf.depth {
							seen[r2.def.endKey] = true
							p.AddStates(1)
							// a pair is two events: its end state joins the frontier of the next level, whose
							// histories have d+1 events
							next = append(next, node{h2, r2.def})
						}
					}
				}
			}
			frontier = next
		}
		p.Count("frontier_states_not_expanded", len(frontier))
	}
	p.End(complete,
		"events {run, term, quit, hup+, hup-, int, up+, up-, tick}, at most one notice before the run, every pair of events also delivered together where stated; "+boundText,
		"breadth-first over histories with canonical-state de-duplication (state = key() of the default-schedule execution at the end of the history; successors by replaying history + event on a fresh StageManager); every execution is one (history, schedule) and is judged on its own record; distinct = (configuration, history, end state); outcome = (end state, how the process ended)")
}
