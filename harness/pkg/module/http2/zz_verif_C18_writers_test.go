//go:build verif

package http2

// C18 (b), writing: what MOSN's frame writers (MFramer.writeSettings /
// writeWindowUpdate / writeData / writeHeaders / writeContinuation and the
// connection-level writers that build frames by hand: SETTINGS ack, PING,
// PING ack, RST_STREAM, GOAWAY, the server's and the client's initial frames,
// HEADERS(+CONTINUATION) blocks produced by MServerConn.writeHeaders and
// MClientConn.WriteHeaders with MOSN's hpack encoder) put on the connection is
// read back by x/net's Framer (default limits of a peer that sent no SETTINGS:
// max frame size 16384) and must parse, without error, to the frames MOSN was
// asked to write.
//
// Not compared (statement silent): the order of header fields with different
// names (multiset comparison), which optional fields MOSN's client adds to a
// request (only the pseudo headers and the caller's fields are looked up),
// writer calls with illegal arguments (not enumerated).

import (
	"bytes"
	"context"
	"fmt"
	"io"
	"net/http"
	"sort"
	"strings"
	"testing"
	"time"

	xhttp2 "golang.org/x/net/http2"
	xhpack "golang.org/x/net/http2/hpack"
	"mosn.io/mosn/pkg/verifrt/vreport"
	"mosn.io/pkg/buffer"
)

type c18WCase struct {
	Op         string      `json:"op"`
	Stream     uint32      `json:"stream,omitempty"`
	End        bool        `json:"end,omitempty"`         // END_STREAM
	EndHeaders bool        `json:"end_headers,omitempty"` // HEADERS
	N          int         `json:"n,omitempty"`           // payload size (-1 = nil)
	Pad        int         `json:"pad,omitempty"`
	Prio       [3]uint32   `json:"prio,omitempty"` // dep, exclusive, weight
	Conts      []int       `json:"conts,omitempty"`
	Settings   [][2]uint32 `json:"settings,omitempty"`
	Incr       uint32      `json:"incr,omitempty"`
	Code       uint32      `json:"code,omitempty"`
	Ack        bool        `json:"ack,omitempty"`
	Status     int         `json:"status,omitempty"`
}

func c18Payload(n int, seed byte) []byte {
	if n < 0 {
		return nil
	}
	b := make([]byte, n)
	for i := range b {
		b[i] = byte(i*7) + seed
	}
	return b
}

// c18XRead parses everything MOSN wrote with the reference framer.
func c18XRead(b []byte, meta bool) (frames []string, kinds []xhttp2.Frame, err error) {
	fr := xhttp2.NewFramer(io.Discard, bytes.NewReader(b))
	if meta {
		fr.ReadMetaHeaders = xhpack.NewDecoder(4096, nil)
		fr.MaxHeaderListSize = 1 << 20
	}
	var pb c18B
	for {
		f, e := fr.ReadFrame()
		if e == io.EOF {
			return frames, kinds, nil
		}
		if e != nil {
			return frames, kinds, e
		}
		frames = append(frames, c18ProjX(&pb, f))
	}
}

func c18Exp(f func(p *c18B)) string {
	var pb c18B
	f(&pb)
	return string(pb.b)
}

func c18CheckWriter(p *vreport.Part, c c18WCase) {
	defer func() {
		if r := recover(); r != nil {
			p.Violation("framing-write: "+c.Op+" panics", fmt.Sprint(r), c)
		}
	}()
	conn := newC18Conn()
	sc := NewServerConn(conn)
	cc := NewClientConn(conn)
	ctx := context.Background()
	var want []string // expected projections, in order
	meta := false
	skipPreface := 0
	bad := func(what, detail string) {
		p.Violation("framing-write: "+c.Op+": "+what, detail+fmt.Sprintf(" (case %+v)", c), c)
	}
	var werr error
	switch c.Op {
	case "writeSettings":
		var ss writeSettings
		exp := c18Exp(func(pb *c18B) {
			pb.hdr(uint8(FrameSettings), 0, 0, uint32(6*len(c.Settings))).s("SETTINGS ack=").t(false).s(" [")
			for _, s := range c.Settings {
				pb.s(" ").u(uint64(s[0])).s("=").u(uint64(s[1]))
			}
			pb.s("]")
		})
		for _, s := range c.Settings {
			ss = append(ss, Setting{ID: SettingID(s[0]), Val: s[1]})
		}
		werr = sc.Framer.writeSettings(ss)
		want = []string{exp}
	case "writeWindowUpdate":
		werr = sc.Framer.writeWindowUpdate(c.Stream, c.Incr)
		want = []string{c18Exp(func(pb *c18B) {
			pb.hdr(uint8(FrameWindowUpdate), 0, c.Stream, 4).s("WINDOW_UPDATE incr=").u(uint64(c.Incr))
		})}
	case "writeData":
		data := c18Payload(c.N, 3)
		werr = sc.Framer.writeData(c.Stream, c.End, data)
		if werr == nil {
			all := conn.all()
			frames, _, err := c18XReadData(all)
			if err != nil {
				bad("the reference cannot read the DATA frames (default max frame size 16384)", err.Error())
				return
			}
			var got []byte
			for i, f := range frames {
				got = append(got, f.data...)
				if f.stream != c.Stream {
					bad("DATA on another stream", fmt.Sprintf("frame %d stream %d", i, f.stream))
				}
				if f.end != (c.End && i == len(frames)-1) {
					bad("END_STREAM flag wrong", fmt.Sprintf("frame %d of %d has END_STREAM=%v, asked endStream=%v", i, len(frames), f.end, c.End))
				}
			}
			if !bytes.Equal(got, data) {
				bad("concatenated DATA differs from the body", fmt.Sprintf("wrote %d bytes, read %d bytes in %d frames", len(data), len(got), len(frames)))
			}
			if len(frames) == 0 {
				bad("nothing written", "")
			}
			p.Outcome(fmt.Sprintf("data-frames=%d", len(frames)))
			return
		}
	case "writeHeaders":
		frag := c18Payload(c.N, 9)
		prm := HeadersFrameParam{StreamID: c.Stream, BlockFragment: frag, EndStream: c.End, EndHeaders: c.EndHeaders, PadLength: uint8(c.Pad),
			Priority: PriorityParam{StreamDep: c.Prio[0], Exclusive: c.Prio[1] != 0, Weight: uint8(c.Prio[2])}}
		werr = sc.Framer.writeHeaders(prm)
		var fl Flags
		plen := len(frag)
		if c.Pad != 0 {
			fl |= FlagHeadersPadded
			plen += 1 + c.Pad
		}
		if c.End {
			fl |= FlagHeadersEndStream
		}
		if c.EndHeaders {
			fl |= FlagHeadersEndHeaders
		}
		hasPrio := !prm.Priority.IsZero()
		if hasPrio {
			fl |= FlagHeadersPriority
			plen += 5
		}
		want = append(want, c18Exp(func(pb *c18B) {
			pb.hdr(uint8(FrameHeaders), uint8(fl), c.Stream, uint32(plen)).s("HEADERS ").prio(c.Prio[0], c.Prio[1] != 0, uint8(c.Prio[2])).hflags(hasPrio, c.End, c.EndHeaders).s(" frag=").x(frag)
		}))
		for i, n := range c.Conts {
			if werr != nil {
				break
			}
			cf := c18Payload(n, byte(20+i))
			last := i == len(c.Conts)-1
			werr = sc.Framer.writeContinuation(c.Stream, last, cf)
			var cfl Flags
			if last {
				cfl = FlagContinuationEndHeaders
			}
			want = append(want, c18Exp(func(pb *c18B) {
				pb.hdr(uint8(FrameContinuation), uint8(cfl), c.Stream, uint32(len(cf))).s("CONTINUATION endheaders=").t(last).s(" frag=").x(cf)
			}))
		}
	case "server.settings-ack", "client.settings-ack":
		// deliver a peer SETTINGS frame through the real ReadFrame + HandleFrame, expect the ack on the wire
		w := newC18Writer()
		c18Must(w.fw.WriteSettings(xhttp2.Setting{ID: xhttp2.SettingMaxFrameSize, Val: 32768}))
		if c.Op[0] == 's' {
			f, _, err := sc.Framer.ReadFrame(ctx, buffer.NewIoBufferBytes(w.out.Bytes()), 0)
			c18Must(err)
			_, _, _, _, werr = sc.HandleFrame(ctx, f)
		} else {
			f, _, err := cc.Framer.ReadFrame(ctx, buffer.NewIoBufferBytes(w.out.Bytes()), 0)
			c18Must(err)
			_, _, _, _, _, werr = cc.HandleFrame(ctx, f)
		}
		want = []string{c18Exp(func(pb *c18B) { pb.hdr(uint8(FrameSettings), uint8(FlagSettingsAck), 0, 0).s("SETTINGS ack=").t(true).s(" []") })}
	case "server.ping-ack", "client.ping-ack":
		w := newC18Writer()
		data := [8]byte{9, 8, 7, 6, 5, 4, 3, byte(c.N)}
		c18Must(w.fw.WritePing(false, data))
		if c.Op[0] == 's' {
			f, _, err := sc.Framer.ReadFrame(ctx, buffer.NewIoBufferBytes(w.out.Bytes()), 0)
			c18Must(err)
			_, _, _, _, werr = sc.HandleFrame(ctx, f)
		} else {
			f, _, err := cc.Framer.ReadFrame(ctx, buffer.NewIoBufferBytes(w.out.Bytes()), 0)
			c18Must(err)
			_, _, _, _, _, werr = cc.HandleFrame(ctx, f)
		}
		want = []string{c18Exp(func(pb *c18B) { pb.hdr(uint8(FramePing), uint8(FlagPingAck), 0, 8).s("PING ack=").t(true).s(" ").x(data[:]) })}
	case "client.WritePing":
		data := [8]byte{1, 1, 2, 3, 5, 8, 13, byte(c.N)}
		werr = cc.WritePing(c.Ack, data)
		var fl Flags
		if c.Ack {
			fl = FlagPingAck
		}
		want = []string{c18Exp(func(pb *c18B) { pb.hdr(uint8(FramePing), uint8(fl), 0, 8).s("PING ack=").t(c.Ack).s(" ").x(data[:]) })}
	case "server.goAway":
		var dbg []byte
		if c.N >= 0 {
			dbg = c18Payload(c.N, 65)
		}
		sc.goAway(ErrCode(c.Code), dbg)
		want = []string{c18Exp(func(pb *c18B) {
			pb.hdr(uint8(FrameGoAway), 0, 0, uint32(8+len(dbg))).s("GOAWAY last=").u(0).s(" code=").u(uint64(c.Code)).s(" debug=").x(dbg)
		})}
	case "server.resetStream":
		sc.setStream(c.Stream, &stream{id: c.Stream})
		werr = sc.resetStream(StreamError{StreamID: c.Stream, Code: ErrCode(c.Code)})
		want = []string{c18Exp(func(pb *c18B) { pb.hdr(uint8(FrameRSTStream), 0, c.Stream, 4).s("RST code=").u(uint64(c.Code)) })}
	case "server.Init":
		werr = sc.Init()
	case "client.WriteInitFrame":
		cc.WriteInitFrame()
		skipPreface = len(clientPreface)
	case "server.writeHeaders", "client.WriteHeaders":
		meta = true
		h := http.Header{}
		var expect []string
		if c.N >= 0 {
			big := strings.Repeat("v", c.N)
			h.Set("X-Big", big)
			expect = append(expect, "x-big="+big)
		}
		h.Add("A", "1")
		h.Add("A", "2")
		expect = append(expect, "a=1", "a=2")
		if c.Op[0] == 's' {
			werr = sc.writeHeaders(&writeResHeaders{streamID: c.Stream, httpResCode: c.Status, h: h, endStream: c.End, contentType: "text/plain", contentLength: "5", date: "D"})
			expect = append(expect, fmt.Sprintf(":status=%d", c.Status), "content-type=text/plain", "content-length=5", "date=D")
		} else {
			req, err := http.NewRequest("GET", "http://h.example/p?q=1", nil)
			c18Must(err)
			req.Header = h
			_, werr = cc.WriteHeaders(ctx, req, "", c.End)
			expect = append(expect, ":method=GET", ":path=/p?q=1", ":scheme=http", ":authority=h.example")
		}
		if werr != nil {
			bad("writer returns an error on legal arguments", werr.Error())
			return
		}
		fr := xhttp2.NewFramer(io.Discard, bytes.NewReader(conn.all()))
		fr.ReadMetaHeaders = xhpack.NewDecoder(4096, nil)
		fr.MaxHeaderListSize = 1 << 20
		f, err := fr.ReadFrame()
		if err != nil {
			bad("the reference cannot read the header block", fmt.Sprintf("%v (%d writes, %d bytes)", err, len(conn.writes), len(conn.all())))
			return
		}
		mh, ok := f.(*xhttp2.MetaHeadersFrame)
		if !ok {
			bad("first frame is not HEADERS", fmt.Sprintf("%T", f))
			return
		}
		var got []string
		for _, hf := range mh.Fields {
			got = append(got, hf.Name+"="+hf.Value)
		}
		p.Outcome(fmt.Sprintf("%s writes=%d", c.Op, len(conn.writes)))
		if c.Op[0] == 's' {
			sort.Strings(got)
			sort.Strings(expect)
			if strings.Join(got, "\n") != strings.Join(expect, "\n") {
				bad("decoded response header list differs (as a multiset) from the encoded one", fmt.Sprintf("got %d fields, want %d fields; got names %v", len(got), len(expect), c18Names(got)))
			}
		} else {
			set := map[string]bool{}
			for _, g := range got {
				set[g] = true
			}
			for _, e := range expect {
				if !set[e] {
					bad("a request field is missing or altered after decoding by the reference", fmt.Sprintf("missing %.40q; got names %v", e, c18Names(got)))
				}
			}
		}
		if mh.StreamEnded() != c.End {
			bad("END_STREAM flag wrong", fmt.Sprint(mh.StreamEnded()))
		}
		if _, err := fr.ReadFrame(); err != io.EOF {
			bad("trailing bytes after the header block", fmt.Sprint(err))
		}
		return
	default:
		vreport.HarnessError("C18", p.Name, "unknown op "+c.Op)
		return
	}
	if werr != nil {
		bad("writer returns an error on legal arguments", werr.Error())
		return
	}
	all := conn.all()
	if skipPreface > 0 {
		if len(all) < skipPreface || string(all[:skipPreface]) != string(clientPreface) {
			bad("client preface missing", fmt.Sprintf("%q", all))
			return
		}
		all = all[skipPreface:]
	}
	got, _, err := c18XRead(all, meta)
	if err != nil {
		bad("the reference cannot read what was written", fmt.Sprintf("%v after %d frames %v", err, len(got), got))
		return
	}
	p.Outcome(fmt.Sprintf("%s frames=%d", c.Op, len(got)))
	if want == nil { // initial frames: only parseability and validity of the settings is demanded
		if len(got) == 0 {
			bad("nothing written", "")
		}
		fr := xhttp2.NewFramer(io.Discard, bytes.NewReader(all))
		for {
			f, e := fr.ReadFrame()
			if e != nil {
				break
			}
			if sf, ok := f.(*xhttp2.SettingsFrame); ok {
				sf.ForeachSetting(func(s xhttp2.Setting) error {
					if e := s.Valid(); e != nil {
						bad("initial SETTINGS carry a value the reference rejects", fmt.Sprintf("%v: %v", s, e))
					}
					return nil
				})
			}
		}
		return
	}
	if len(got) != len(want) {
		bad("number of frames read back differs", fmt.Sprintf("got %v want %v", got, want))
		return
	}
	for i := range want {
		if got[i] != want[i] {
			bad("frame read back by the reference differs from what was asked", fmt.Sprintf("frame %d:\n got  %.300s\n want %.300s", i, got[i], want[i]))
			return
		}
	}
}

func c18Names(kv []string) []string {
	var out []string
	for _, s := range kv {
		if i := strings.IndexByte(s[1:], '='); i >= 0 {
			out = append(out, s[:i+1])
		}
	}
	return out
}

type c18DataFrame struct {
	stream uint32
	end    bool
	data   []byte
}

func c18XReadData(b []byte) (out []c18DataFrame, n int, err error) {
	fr := xhttp2.NewFramer(io.Discard, bytes.NewReader(b)) // default max read size 16384 = limit of a peer that sent no SETTINGS_MAX_FRAME_SIZE
	fr.SetMaxReadFrameSize(16384)
	for {
		f, e := fr.ReadFrame()
		if e == io.EOF {
			return out, n, nil
		}
		if e != nil {
			return out, n, e
		}
		df, ok := f.(*xhttp2.DataFrame)
		if !ok {
			return out, n, fmt.Errorf("unexpected %T", f)
		}
		out = append(out, c18DataFrame{df.StreamID, df.StreamEnded(), append([]byte(nil), df.Data()...)})
		n += len(df.Data())
	}
}

func TestVerifC18FramingWrite(t *testing.T) {
	if i, _ := vreport.Shard(); i != 0 {
		return // not sharded: runs in shard 0 only
	}
	p := vreport.Begin("C18", "framing-write", 3*time.Minute)
	streams := []uint32{1, 1<<31 - 1}
	complete := vreport.Run(p,
		func(yield func(c18WCase) bool) {
			ok := true
			y := func(c c18WCase) {
				if ok {
					p.Distinct(fmt.Sprintf("%+v", c))
					ok = yield(c)
				}
			}
			// SETTINGS: every list of <=2 settings over ids x boundary values the reference considers valid
			var sets [][2]uint32
			for _, id := range []uint32{1, 2, 3, 4, 5, 6, 0x99} {
				for _, v := range []uint32{0, 1, 16384, 65535, 1<<24 - 1, 1<<31 - 1, 1<<32 - 1} {
					if (xhttp2.Setting{ID: xhttp2.SettingID(id), Val: v}).Valid() == nil {
						sets = append(sets, [2]uint32{id, v})
					}
				}
			}
			y(c18WCase{Op: "writeSettings"})
			for _, a := range sets {
				y(c18WCase{Op: "writeSettings", Settings: [][2]uint32{a}})
				for _, b := range sets {
					y(c18WCase{Op: "writeSettings", Settings: [][2]uint32{a, b}})
				}
			}
			for _, s := range []uint32{0, 1, 1<<31 - 1} {
				for _, inc := range []uint32{1, 2, 65535, 1 << 30, 1<<31 - 1} {
					y(c18WCase{Op: "writeWindowUpdate", Stream: s, Incr: inc})
				}
			}
			for _, s := range streams {
				for _, end := range []bool{false, true} {
					for _, n := range []int{-1, 1, 7, 16383, 16384, 16385, 32768, 32769, 40000, 65536} {
						y(c18WCase{Op: "writeData", Stream: s, End: end, N: n})
					}
				}
			}
			prios := [][3]uint32{{0, 0, 0}, {1, 1, 255}, {1<<31 - 1, 0, 0}, {0, 0, 7}, {0, 1, 0}}
			for _, s := range streams {
				for _, end := range []bool{false, true} {
					for _, n := range []int{1, 100, 16384 - 261} { // the last: largest fragment that fits a 16384 frame with pad 255 + priority
						for _, pad := range []int{0, 1, 255} {
							for _, pr := range prios {
								y(c18WCase{Op: "writeHeaders", Stream: s, End: end, EndHeaders: true, N: n, Pad: pad, Prio: pr})
								for _, c1 := range []int{0, 1, 16384} {
									y(c18WCase{Op: "writeHeaders", Stream: s, End: end, N: n, Pad: pad, Prio: pr, Conts: []int{c1}})
									for _, c2 := range []int{0, 1, 16384} {
										y(c18WCase{Op: "writeHeaders", Stream: s, End: end, N: n, Pad: pad, Prio: pr, Conts: []int{c1, c2}})
									}
								}
							}
						}
					}
				}
			}
			for _, op := range []string{"server.settings-ack", "client.settings-ack", "server.Init", "client.WriteInitFrame"} {
				y(c18WCase{Op: op})
			}
			for _, n := range []int{0, 255} {
				y(c18WCase{Op: "server.ping-ack", N: n})
				y(c18WCase{Op: "client.ping-ack", N: n})
				y(c18WCase{Op: "client.WritePing", N: n})
				y(c18WCase{Op: "client.WritePing", N: n, Ack: true})
			}
			for _, code := range []uint32{0, 1, 8, 0xd, 0xffffffff} {
				for _, n := range []int{-1, 0, 1, 300} {
					y(c18WCase{Op: "server.goAway", Code: code, N: n})
				}
				for _, s := range streams {
					y(c18WCase{Op: "server.resetStream", Stream: s, Code: code})
				}
			}
			for _, op := range []string{"server.writeHeaders", "client.WriteHeaders"} {
				for _, end := range []bool{false, true} {
					for _, n := range []int{-1, 0, 10, 16000, 16384, 20000, 33000, 40000} { // header blocks of 1, 2 and 3 frames
						for _, st := range []int{200, 404} {
							if op[0] == 'c' && st == 404 {
								continue
							}
							y(c18WCase{Op: op, Stream: 1, End: end, N: n, Status: st})
						}
					}
				}
			}
		},
		c18CheckWriter)
	p.End(complete, "MFramer.writeSettings: every list of <=2 settings over 7 ids x 7 boundary values (valid ones); writeWindowUpdate 3 streams x 5 increments; writeData 2 streams x END_STREAM x 10 sizes (nil..65536); writeHeaders 2 streams x END_STREAM x 3 fragment sizes x pad 0/1/255 x 5 priorities x (END_HEADERS | 1..2 CONTINUATION of 0/1/16384 bytes); SETTINGS ack, PING, PING ack, RST_STREAM, GOAWAY (5 codes x 4 debug sizes), initial frames of server and client; response/request header blocks of 1..3 frames through MOSN's hpack encoder",
		"cartesian products; every case on fresh connections; bytes recorded by the fake connection are parsed by x/net's Framer; distinct = cases")
}
