//go:build verif

package http2

// C18 (b), reading: every frame sequence written by the reference (x/net Framer
// + a stateful x/net hpack encoder) parses identically with MOSN's
// MFramer.ReadFrame and with x/net's Framer.ReadFrame, for every segmentation
// of the byte stream into <=3 reads (<=2 cuts).
//
// How MOSN reads (pkg/stream/http2 Dispatch -> pkg/protocol/http2 Decode ->
// MFramer.ReadFrame(ctx, buf, 0)): the connection's read buffer accumulates
// bytes; Dispatch calls ReadFrame at offset 0 in a loop; ReadFrame returns
// ErrAGAIN when the buffer does not yet hold the complete frame (for HEADERS:
// the complete HEADERS+CONTINUATION group), consuming nothing, and is called
// again from scratch when more bytes have arrived; on success it drains the
// frame(s) from the buffer. The harness drives exactly this loop on a real
// mosn.io/pkg/buffer IoBuffer to which the segments are appended.
//
// Oracle: the list of parsed frames (type, flags, stream id, length, and all
// payload fields: data, header fields incl. sensitive flag, priority, settings,
// ping data, error codes, increments, last-stream-id, debug data) equals the
// reference's list; no error; no ErrAGAIN once all bytes are there; nothing
// left in the buffer; no panic; termination. Sequences the reference itself
// rejects are enumerated but not compared (none in this alphabet).

import (
	"bytes"
	"context"
	"fmt"
	"io"
	"net/http"
	"strings"
	"testing"
	"time"

	xhttp2 "golang.org/x/net/http2"
	xhpack "golang.org/x/net/http2/hpack"
	"mosn.io/mosn/pkg/verifrt/vreport"
	"mosn.io/pkg/buffer"
)

type c18Writer struct {
	out  bytes.Buffer
	fw   *xhttp2.Framer
	hb   bytes.Buffer
	henc *xhpack.Encoder
}

func newC18Writer() *c18Writer {
	w := &c18Writer{}
	w.fw = xhttp2.NewFramer(&w.out, nil)
	w.henc = xhpack.NewEncoder(&w.hb)
	return w
}

func (w *c18Writer) block(fields ...xhpack.HeaderField) []byte {
	w.hb.Reset()
	for _, f := range fields {
		if err := w.henc.WriteField(f); err != nil {
			panic(err)
		}
	}
	return append([]byte(nil), w.hb.Bytes()...)
}

func c18Must(err error) {
	if err != nil {
		panic("reference writer refused: " + err.Error())
	}
}

var (
	c18Req = []xhpack.HeaderField{{Name: ":method", Value: "GET"}, {Name: ":scheme", Value: "http"}, {Name: ":path", Value: "/x"},
		{Name: ":authority", Value: "h.example"}, {Name: "a", Value: "1"}, {Name: "c", Value: "s", Sensitive: true}, {Name: "d", Value: ""}}
	c18Resp = []xhpack.HeaderField{{Name: ":status", Value: "200"}, {Name: "a", Value: "1"}, {Name: "b", Value: "abcdefghijklmnopqrstuvwxyzabcdefghijklmn"}}
)

type c18Unit struct {
	name  string
	class string // frame-group class used in finding keys
	write func(w *c18Writer)
}

// c18Headers writes a HEADERS frame followed by CONTINUATION frames; split gives
// the split points of the header block (one CONTINUATION frame per point).
func c18Headers(w *c18Writer, stream uint32, fields []xhpack.HeaderField, endStream bool, pad uint8, prio xhttp2.PriorityParam, split func(n int) []int) {
	blk := w.block(fields...)
	var pts []int
	if split != nil {
		pts = split(len(blk))
	}
	pts = append(pts, len(blk))
	c18Must(w.fw.WriteHeaders(xhttp2.HeadersFrameParam{StreamID: stream, BlockFragment: blk[:pts[0]], EndStream: endStream,
		EndHeaders: len(pts) == 1, PadLength: pad, Priority: prio}))
	for i := 1; i < len(pts); i++ {
		c18Must(w.fw.WriteContinuation(stream, i == len(pts)-1, blk[pts[i-1]:pts[i]]))
	}
}

var c18Units = []c18Unit{
	{"DATA", "DATA", func(w *c18Writer) { c18Must(w.fw.WriteData(1, false, []byte("hello"))) }},
	{"DATA+pad1+END_STREAM", "DATA", func(w *c18Writer) { c18Must(w.fw.WriteDataPadded(1, true, []byte("hello"), make([]byte, 1))) }},
	{"DATA(empty)+pad255", "DATA", func(w *c18Writer) { c18Must(w.fw.WriteDataPadded(3, false, nil, make([]byte, 255))) }},
	{"HEADERS", "HEADERS", func(w *c18Writer) { c18Headers(w, 1, c18Req, false, 0, xhttp2.PriorityParam{}, nil) }},
	{"HEADERS+prio+END_STREAM", "HEADERS", func(w *c18Writer) {
		c18Headers(w, 3, c18Req, true, 0, xhttp2.PriorityParam{StreamDep: 1, Exclusive: true, Weight: 200}, nil)
	}},
	{"HEADERS(resp)+pad1", "HEADERS", func(w *c18Writer) { c18Headers(w, 5, c18Resp, false, 1, xhttp2.PriorityParam{}, nil) }},
	{"HEADERS+prio+pad255", "HEADERS", func(w *c18Writer) {
		c18Headers(w, 7, c18Req, false, 255, xhttp2.PriorityParam{StreamDep: 0x7fffffff, Exclusive: false, Weight: 0}, nil)
	}},
	{"HEADERS+CONTx1", "HEADERS+CONTINUATIONx1", func(w *c18Writer) {
		c18Headers(w, 1, c18Req, false, 0, xhttp2.PriorityParam{}, func(n int) []int { return []int{n / 2} })
	}},
	{"HEADERS+CONTx2", "HEADERS+CONTINUATIONx2", func(w *c18Writer) {
		c18Headers(w, 1, c18Resp, true, 0, xhttp2.PriorityParam{}, func(n int) []int { return []int{n / 3, 2 * n / 3} })
	}},
	{"HEADERS+prio+pad1+CONTx2", "HEADERS+CONTINUATIONx2", func(w *c18Writer) {
		c18Headers(w, 9, c18Req, false, 1, xhttp2.PriorityParam{StreamDep: 3, Weight: 15}, func(n int) []int { return []int{1, n - 1} })
	}},
	{"HEADERS(empty fragment)+CONTx1", "HEADERS(empty fragment)+CONTINUATION", func(w *c18Writer) {
		c18Headers(w, 1, c18Req, false, 0, xhttp2.PriorityParam{}, func(n int) []int { return []int{0} })
	}},
	{"HEADERS+CONTx1(empty)", "HEADERS+CONTINUATIONx1", func(w *c18Writer) {
		c18Headers(w, 1, c18Resp, false, 0, xhttp2.PriorityParam{}, func(n int) []int { return []int{n} })
	}},
	{"SETTINGS", "SETTINGS", func(w *c18Writer) {
		c18Must(w.fw.WriteSettings(xhttp2.Setting{ID: xhttp2.SettingMaxFrameSize, Val: 32768}, xhttp2.Setting{ID: xhttp2.SettingInitialWindowSize, Val: 1<<31 - 1},
			xhttp2.Setting{ID: xhttp2.SettingEnablePush, Val: 0}, xhttp2.Setting{ID: xhttp2.SettingID(0x99), Val: 0xffffffff}))
	}},
	{"SETTINGS(empty)", "SETTINGS", func(w *c18Writer) { c18Must(w.fw.WriteSettings()) }},
	{"SETTINGS ack", "SETTINGS", func(w *c18Writer) { c18Must(w.fw.WriteSettingsAck()) }},
	{"PING", "PING", func(w *c18Writer) { c18Must(w.fw.WritePing(false, [8]byte{1, 2, 3, 4, 5, 6, 7, 8})) }},
	{"PING ack", "PING", func(w *c18Writer) { c18Must(w.fw.WritePing(true, [8]byte{0xff, 0, 0xff, 0, 0xff, 0, 0xff, 0})) }},
	{"RST_STREAM", "RST_STREAM", func(w *c18Writer) { c18Must(w.fw.WriteRSTStream(1, xhttp2.ErrCodeCancel)) }},
	{"WINDOW_UPDATE(conn,1)", "WINDOW_UPDATE", func(w *c18Writer) { c18Must(w.fw.WriteWindowUpdate(0, 1)) }},
	{"WINDOW_UPDATE(stream,max)", "WINDOW_UPDATE", func(w *c18Writer) { c18Must(w.fw.WriteWindowUpdate(1, 1<<31-1)) }},
	{"GOAWAY+debug", "GOAWAY", func(w *c18Writer) { c18Must(w.fw.WriteGoAway(7, xhttp2.ErrCodeEnhanceYourCalm, []byte("bye"))) }},
	{"GOAWAY", "GOAWAY", func(w *c18Writer) { c18Must(w.fw.WriteGoAway(0x7fffffff, xhttp2.ErrCodeNo, nil)) }},
	{"PRIORITY", "PRIORITY", func(w *c18Writer) {
		c18Must(w.fw.WritePriority(3, xhttp2.PriorityParam{StreamDep: 1, Exclusive: false, Weight: 0}))
	}},
}

type c18FrameCase struct {
	Side  string   `json:"side"`           // which MOSN framer: "server" (NewServerConn) or "client" (NewClientConn)
	Seq   []int    `json:"seq"`            // indices into c18Units
	Cuts  []int    `json:"cuts,omitempty"` // replay: only this segmentation; nil = all segmentations with <= Max cuts
	Max   int      `json:"max_cuts"`
	Names []string `json:"names,omitempty"`
}

// c18RefParse parses b with the reference framer configured like MOSN's.
func c18RefParse(b []byte) (frames []string, err error) {
	fr := xhttp2.NewFramer(io.Discard, bytes.NewReader(b))
	fr.ReadMetaHeaders = xhpack.NewDecoder(initialHeaderTableSize, nil)
	fr.MaxHeaderListSize = http.DefaultMaxHeaderBytes
	fr.SetMaxReadFrameSize(defaultMaxReadFrameSize)
	var pb c18B
	for {
		f, e := fr.ReadFrame()
		if e == io.EOF {
			return frames, nil
		}
		if e != nil {
			return frames, e
		}
		frames = append(frames, c18ProjX(&pb, f))
	}
}

type c18ReadResult struct {
	n       int    // frames parsed and equal to the reference so far
	diff    string // projection of the first frame that differs from ref[n] ("" if none)
	err     string // "" or the first error / anomaly
	errKind string
}

func c18NewMFramer(side string) *MFramer {
	if side == "client" {
		return NewClientConn(newC18Conn()).Framer
	}
	return NewServerConn(newC18Conn()).Framer
}

// c18MosnRead feeds the segments one after the other and runs MOSN's dispatch loop after each.
func c18MosnRead(side string, segs [][]byte, ref []string, pb *c18B) (res c18ReadResult) {
	fr := c18NewMFramer(side)
	fb := &c18FuseBuf{IoBuffer: buffer.NewIoBuffer(64)}
	defer func() {
		if r := recover(); r != nil {
			if _, ok := r.(c18FuseBlown); ok {
				res.errKind, res.err = "does not terminate", fmt.Sprintf("ReadFrame made more than %d buffer accesses without returning (after %d frames)", c18FuseLimit, res.n)
				return
			}
			res.errKind, res.err = "panics", fmt.Sprintf("panic after %d frames: %v", res.n, r)
		}
	}()
	ctx := context.Background()
	for _, s := range segs {
		fb.IoBuffer.Write(s)
		for {
			fb.calls = 0
			f, _, err := fr.ReadFrame(ctx, fb, 0)
			if err == ErrAGAIN {
				break
			}
			if err != nil {
				res.errKind, res.err = "rejects", fmt.Sprintf("error after %d frames: %v", res.n, err)
				return
			}
			// project before the next read: payload slices alias the read buffer
			pb.b = pb.b[:0]
			if res.n >= len(ref) {
				res.errKind, res.err = "returns more frames than the reference", "extra frame "+c18ProjM(pb, f)
				return
			}
			if c18ProjMEq(pb, f, ref[res.n]) {
				res.n++
				continue
			}
			res.diff = string(pb.b)
			return
		}
	}
	if n := fb.IoBuffer.Len(); n != 0 {
		res.errKind, res.err = "leaves bytes unparsed (ErrAGAIN although all bytes are present)", fmt.Sprintf("%d bytes left after %d frames", n, res.n)
	}
	return
}

func c18CheckFrames(p *vreport.Part, c c18FrameCase) {
	w := newC18Writer()
	var names, classes []string
	var bounds []int // end offsets of the units
	for _, i := range c.Seq {
		if i < 0 || i >= len(c18Units) {
			vreport.HarnessError("C18", p.Name, "bad unit index")
			return
		}
		c18Units[i].write(w)
		names = append(names, c18Units[i].name)
		classes = append(classes, c18Units[i].class)
		bounds = append(bounds, w.out.Len())
	}
	c.Names = names
	b := w.out.Bytes()
	ref, rerr := c18RefParse(b)
	if rerr != nil {
		p.Count("reference_rejects(not compared)", 1)
		return
	}
	if len(ref) != len(names) {
		vreport.HarnessError("C18", p.Name, fmt.Sprintf("reference parsed %d frames from %d groups %v", len(ref), len(names), names))
		return
	}
	seqName := strings.Join(names, ",")
	p.Outcome(seqName)
	n := len(b)
	// class of every cut position relative to the frame-group boundaries (coverage accounting only):
	// 3*unit + {0: inside the first 9 bytes (frame header), 1: inside the body, 2: exactly at the end of the group}
	posClass := make([]int, n+1)
	for k, ui := 1, 0; k < n; k++ {
		for k > bounds[ui] {
			ui++
		}
		start := 0
		if ui > 0 {
			start = bounds[ui-1]
		}
		switch {
		case k == bounds[ui]:
			posClass[k] = 3*ui + 2
		case k-start < 9:
			posClass[k] = 3 * ui
		default:
			posClass[k] = 3*ui + 1
		}
	}
	classSeen := map[int]bool{}
	evals, failures := 0, 0
	var segs [3][]byte
	var pb c18B
	one := func(cuts []int) {
		evals++
		prev, ns, cls := 0, 0, 0
		for _, k := range cuts {
			segs[ns] = b[prev:k]
			ns++
			prev = k
			cls = cls*100 + posClass[k] + 1
		}
		segs[ns] = b[prev:]
		ns++
		got := c18MosnRead(c.Side, segs[:ns], ref, &pb)
		if !classSeen[cls] {
			classSeen[cls] = true
			p.Distinct(fmt.Sprintf("%s|%s|%d", c.Side, seqName, cls))
		}
		cc := c
		cc.Cuts = append([]int{}, cuts...)
		if got.err != "" {
			failures++
			at := "?" // which group was being parsed
			if got.n < len(classes) {
				at = classes[got.n]
			}
			p.Violation(fmt.Sprintf("framing: MFramer.ReadFrame %s on a valid %s group the reference parses", got.errKind, at),
				fmt.Sprintf("side=%s sequence=%v cuts=%v (of %d bytes): %s; reference parsed %d frames", c.Side, names, cuts, n, got.err, len(ref)), cc)
			return
		}
		if got.diff != "" {
			failures++
			p.Violation(fmt.Sprintf("framing: parsed %s frame (%s group) differs from the reference", c18Kind(ref[got.n]), classes[got.n]),
				fmt.Sprintf("side=%s sequence=%v cuts=%v frame %d:\n mosn      %s\n reference %s", c.Side, names, cuts, got.n, got.diff, ref[got.n]), cc)
			return
		}
		if got.n != len(ref) {
			failures++
			p.Violation("framing: fewer frames parsed than the reference although nothing is left in the buffer",
				fmt.Sprintf("side=%s sequence=%v cuts=%v: mosn %d frames, reference %d frames %v", c.Side, names, cuts, got.n, len(ref), ref), cc)
			return
		}
	}
	if c.Cuts != nil { // replay of one segmentation
		one(c.Cuts)
		return
	}
	one(nil)
	// once a sequence has failed (it is reported), its remaining segmentations are skipped: they
	// would hit the same finding key again (and a non-terminating parse costs a blown fuse each)
	for i := 1; c.Max >= 1 && i < n && failures == 0; i++ {
		one([]int{i})
	}
	for i := 1; c.Max >= 2 && i < n && failures == 0; i++ {
		for j := i + 1; j < n && failures == 0; j++ {
			one([]int{i, j})
		}
		if p.Expired() {
			break
		}
	}
	if failures > 0 {
		p.Count("sequences_cut_short_after_a_reported_violation", 1)
	}
	if evals > 1 {
		p.EvalN(evals - 1)
	}
	if p.WantSample() {
		p.Sample(map[string]interface{}{"side": c.Side, "sequence": names, "bytes": n, "segmentations": evals, "reference_frames": ref})
	}
}

func TestVerifC18FramingRead(t *testing.T) {
	p := vreport.Begin("C18", "framing-read", time.Duration(vreport.Pick(4, 25))*time.Minute)
	maxLen := vreport.Pick(2, 3)
	si, sn := vreport.Shard()
	complete := vreport.Run(p,
		func(yield func(c18FrameCase) bool) {
			idx := 0
			// by increasing length, so that the first report of a finding is a shortest sequence
			for l := 1; l <= maxLen; l++ {
				seq := make([]int, l)
				for {
					// server framer: all segmentations with <=2 cuts; client framer (same code, other constructor): <=1 cut
					idx++
					for _, sc := range []struct {
						side string
						max  int
					}{{"server", 2}, {"client", 1}} {
						if idx%sn != si {
							continue
						}
						if !yield(c18FrameCase{Side: sc.side, Seq: append([]int(nil), seq...), Max: sc.max}) {
							return
						}
					}
					k := l - 1
					for k >= 0 {
						seq[k]++
						if seq[k] < len(c18Units) {
							break
						}
						seq[k] = 0
						k--
					}
					if k < 0 {
						break
					}
				}
			}
		},
		c18CheckFrames)
	p.Note("units", len(c18Units))
	p.End(complete, fmt.Sprintf("every sequence of 1..%d frame groups over %d groups (DATA pad 0/1/255; HEADERS with/without priority, pad 0/1/255, END_STREAM, followed by 0/1/2 CONTINUATION incl. empty first/last fragment; SETTINGS, empty SETTINGS, SETTINGS ack; PING, PING ack; RST_STREAM; WINDOW_UPDATE conn/stream; GOAWAY with/without debug data; PRIORITY) written by x/net with a stateful x/net hpack encoder; server-side MFramer: every segmentation with <=2 cuts, client-side MFramer: <=1 cut", maxLen, len(c18Units)),
		"cartesian product of sequences x all cut positions; evaluations = segmentations parsed; distinct = (side, sequence, cut classes relative to frame-group boundaries: header/body/boundary); after a sequence has produced a violation its remaining segmentations are skipped")
}
