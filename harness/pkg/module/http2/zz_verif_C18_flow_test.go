//go:build verif

package http2

// C18 (c): as a sender MOSN never puts more DATA on a stream or on the
// connection than the peer's flow-control windows and SETTINGS_MAX_FRAME_SIZE
// allow, yet delivers the complete body as WINDOW_UPDATE frames arrive.
//
// Seam: the real MServerConn / MStream.SendResponse (server) and MClientConn /
// MClientStream.RoundTrip -> writeDataAndTrailer (client) over the recording
// fake connection; package pkg/module/http2 is instrumented (set "http2" of
// engine/rewrite.json: sync -> vsync, so every Mutex Lock/Unlock and
// Cond.Wait/Broadcast of MServerConn.mu/cond and ClientConn.mu/cond is a
// scheduling point of the E1 scheduler).
//
// How the sender blocks (read from the code): awaitFlowControl takes
// conn.mu, loops { closed? ; a := stream.flow.available() (min of stream and
// connection window); a > 0 -> take min(a, remaining, conn.maxFrameSize),
// return ; else conn.cond.Wait() }. processWindowUpdate / processSettings run in
// the reader (here: the peer thread through the real ReadFrame + HandleFrame),
// add to the flow under conn.mu and cond.Broadcast().
//
// Threads: "sender" (SendResponse / second RoundTrip) and "peer" (delivers the
// script of WINDOW_UPDATE frames one after the other). The peer's SETTINGS
// (initial window, max frame size) and the request/response HEADERS that create
// the stream are delivered by thread 0 before the two threads start. All
// interleavings up to the preemption bound.
//
// Wire monitor (in the fake connection's Write, i.e. at the instant a frame
// leaves): for every DATA frame on the stream: cumulative DATA <= initial
// stream window + stream increments the peer has SENT so far (counted when the
// peer thread hands the frame to HandleFrame — an upper bound of what the sender
// can know, so the check is not too strong), same for the connection window
// (65535 + connection increments), frame length <= peer's max frame size, no
// DATA after END_STREAM. At quiescence: if the windows sent in total suffice,
// the sender has returned without error, concatenated DATA == body and
// END_STREAM was sent; if they do not suffice, the sender is still blocked (and
// by the monitor has not over-sent). How MUCH of an insufficient window is used
// is not compared (statement silent).

import (
	"bytes"
	"context"
	"fmt"
	"net/http"
	"os"
	"strconv"
	"testing"
	"time"

	xhttp2 "golang.org/x/net/http2"
	xhpack "golang.org/x/net/http2/hpack"
	"mosn.io/mosn/pkg/verifrt/vreport"
	"mosn.io/mosn/pkg/verifrt/vrt"
	"mosn.io/pkg/buffer"
)

type c18FlowCase struct {
	Side     string      `json:"side"` // "server": MStream.SendResponse; "client": MClientStream.RoundTrip/writeDataAndTrailer
	Body     int         `json:"body"`
	Window   uint32      `json:"window"`    // peer's SETTINGS_INITIAL_WINDOW_SIZE
	MaxFrame uint32      `json:"max_frame"` // peer's SETTINGS_MAX_FRAME_SIZE
	Script   [][2]uint32 `json:"script"`    // peer frames in order: {0, n} WINDOW_UPDATE(connection, n) | {1, n} WINDOW_UPDATE(stream, n) | {2, v} mid-flight SETTINGS_INITIAL_WINDOW_SIZE = v
	Bound    int         `json:"bound"`
	Choices  []int       `json:"choices,omitempty"`
}

const c18ConnWindow = 65535 // initial connection window, not changeable by SETTINGS

type c18FlowObs struct {
	stream       uint32
	grantStream  int64 // high-water mark of the stream window granted by the frames the peer has sent so far
	grantConn    int64
	curStream    int64 // current total (initial window + increments), differs from the high-water mark only after a lowering SETTINGS
	curInit      int64
	maxFrame     uint32
	cumData      int64
	data         []byte
	ended        bool
	bad          []string // monitor violations: key \x00 detail
	senderDone   bool
	senderErr    error
	peerDone     bool
	peerErr      error
	dataFrames   int
	setupErr     string
	log          []string
}

func (o *c18FlowObs) violate(key, detail string) { o.bad = append(o.bad, key+"\x00"+detail) }

// onWrite is the wire monitor.
func (o *c18FlowObs) onWrite(b []byte) {
	for len(b) >= 9 {
		l := int(b[0])<<16 | int(b[1])<<8 | int(b[2])
		typ, flags := b[3], b[4]
		sid := (uint32(b[5])<<24 | uint32(b[6])<<16 | uint32(b[7])<<8 | uint32(b[8])) & 0x7fffffff
		if len(b) < 9+l {
			o.violate("harness: truncated frame written", fmt.Sprint(len(b), l))
			return
		}
		payload := b[9 : 9+l]
		b = b[9+l:]
		o.log = append(o.log, fmt.Sprintf("w t=%d f=%#x s=%d l=%d", typ, flags, sid, l))
		if typ != 0 { // only DATA is flow controlled
			if typ == 1 && flags&0x1 != 0 && sid == o.stream && o.stream != 0 && o.cumData > 0 {
				o.ended = true // trailers
			}
			continue
		}
		if o.stream == 0 || sid != o.stream {
			o.violate("DATA frame on an unexpected stream", fmt.Sprintf("stream %d, expected %d", sid, o.stream))
			continue
		}
		if flags&0x8 != 0 {
			o.violate("harness: padded DATA not modelled", "")
		}
		if o.ended {
			o.violate("DATA after END_STREAM", fmt.Sprintf("%d bytes", l))
		}
		o.dataFrames++
		o.cumData += int64(l)
		o.data = append(o.data, payload...)
		if uint32(l) > o.maxFrame {
			o.violate("DATA frame larger than the peer's SETTINGS_MAX_FRAME_SIZE", fmt.Sprintf("frame of %d bytes, peer max frame size %d", l, o.maxFrame))
		}
		if o.cumData > o.grantStream {
			o.violate("DATA exceeds the stream window granted so far", fmt.Sprintf("cumulative DATA %d after a frame of %d, stream window granted so far %d", o.cumData, l, o.grantStream))
		}
		if o.cumData > o.grantConn {
			o.violate("DATA exceeds the connection window granted so far", fmt.Sprintf("cumulative DATA %d after a frame of %d, connection window granted so far %d", o.cumData, l, o.grantConn))
		}
		if flags&0x1 != 0 {
			o.ended = true
		}
	}
}

func c18Body(n int) []byte {
	b := make([]byte, n)
	for i := range b {
		b[i] = byte(i*31 + i>>8)
	}
	return b
}

// c18FlowRun builds the body of one execution.
func c18FlowRun(c c18FlowCase, o *c18FlowObs) func() {
	// peer frames are encoded by the reference writer, outside the execution
	w := newC18Writer()
	c18Must(w.fw.WriteSettings(xhttp2.Setting{ID: xhttp2.SettingInitialWindowSize, Val: c.Window}, xhttp2.Setting{ID: xhttp2.SettingMaxFrameSize, Val: c.MaxFrame}))
	settings := append([]byte(nil), w.out.Bytes()...)
	w.out.Reset()
	c18Headers(w, 1, []xhpack.HeaderField{{Name: ":method", Value: "GET"}, {Name: ":scheme", Value: "http"}, {Name: ":path", Value: "/"}, {Name: ":authority", Value: "h"}}, true, 0, xhttp2.PriorityParam{}, nil)
	reqHeaders := append([]byte(nil), w.out.Bytes()...)
	body := c18Body(c.Body)
	return func() {
		*o = c18FlowObs{grantStream: int64(c.Window), curStream: int64(c.Window), curInit: int64(c.Window), grantConn: c18ConnWindow, maxFrame: c.MaxFrame}
		conn := newC18Conn()
		conn.onWrite = o.onWrite
		ctx := context.Background()
		var deliver func(b []byte) error
		var sender func() error
		if c.Side == "server" {
			sc := NewServerConn(conn)
			var ms *MStream
			deliver = func(b []byte) error {
				f, _, err := sc.Framer.ReadFrame(ctx, buffer.NewIoBufferBytes(b), 0)
				if err != nil {
					return err
				}
				m, _, _, _, err := sc.HandleFrame(ctx, f)
				if m != nil {
					ms = m
				}
				return err
			}
			if err := deliver(settings); err != nil {
				o.setupErr = "SETTINGS: " + err.Error()
				return
			}
			if err := deliver(reqHeaders); err != nil || ms == nil {
				o.setupErr = fmt.Sprintf("request HEADERS: %v %v", err, ms)
				return
			}
			ms.Response = &http.Response{StatusCode: 200, Header: http.Header{"Content-Type": []string{"application/octet-stream"}}}
			ms.SendData = buffer.NewIoBufferBytes(body)
			o.stream = ms.ID()
			sender = ms.SendResponse
		} else {
			cc := NewClientConn(conn)
			deliver = func(b []byte) error {
				f, _, err := cc.Framer.ReadFrame(ctx, buffer.NewIoBufferBytes(b), 0)
				if err != nil {
					return err
				}
				_, _, _, _, _, err = cc.HandleFrame(ctx, f)
				return err
			}
			if err := deliver(settings); err != nil {
				o.setupErr = "SETTINGS: " + err.Error()
				return
			}
			req, err := http.NewRequest("POST", "http://h.example/p", nil)
			if err != nil {
				o.setupErr = err.Error()
				return
			}
			req.Header.Set("Content-Length", strconv.Itoa(c.Body))
			ms := NewMClientStream(cc, req)
			ms.SendData = buffer.NewIoBufferBytes(body)
			if err := ms.RoundTrip(ctx); err != nil { // first call: HEADERS
				o.setupErr = "request HEADERS: " + err.Error()
				return
			}
			o.stream = ms.GetID()
			sender = func() error { return ms.RoundTrip(ctx) } // second call: DATA + END_STREAM
		}
		vrt.GoNamed("sender", func() {
			o.senderErr = sender()
			o.senderDone = true
		})
		vrt.GoNamed("peer", func() {
			for _, u := range c.Script {
				sid := uint32(0)
				if u[0] == 1 {
					sid = o.stream
				}
				wu := []byte{0, 0, 4, 8, 0, byte(sid >> 24), byte(sid >> 16), byte(sid >> 8), byte(sid), byte(u[1] >> 24), byte(u[1] >> 16), byte(u[1] >> 8), byte(u[1])}
				// the peer has sent the frame: from now on the window is granted. A lowering SETTINGS
				// lowers only the current total; the monitor compares with the high-water mark, because
				// bytes taken under the old window may still be on their way out (RFC 7540 6.9.2).
				switch u[0] {
				case 2:
					wu = []byte{0, 0, 6, 4, 0, 0, 0, 0, 0, 0, 4, byte(u[1] >> 24), byte(u[1] >> 16), byte(u[1] >> 8), byte(u[1])}
					o.curStream += int64(u[1]) - o.curInit
					o.curInit = int64(u[1])
				case 1:
					o.curStream += int64(u[1])
				default:
					o.grantConn += int64(u[1])
				}
				if o.curStream > o.grantStream {
					o.grantStream = o.curStream
				}
				o.log = append(o.log, fmt.Sprintf("p kind=%d s=%d %d", u[0], sid, u[1]))
				if err := deliver(wu); err != nil {
					o.peerErr = err
					break
				}
			}
			o.peerDone = true
		})
		vrt.Quiesce()
	}
}

// c18FlowExpect: sufficient = the windows finally granted cover the body (the sender must finish);
// monotone = no SETTINGS lowered the window (then an insufficient total means the sender must stay blocked;
// after a lowering SETTINGS how far the sender got depends legitimately on the schedule: no expectation).
func c18FlowExpect(c c18FlowCase) (sufficient, monotone, legal bool) {
	s, cn, init := int64(c.Window), int64(c18ConnWindow), int64(c.Window)
	monotone, legal = true, true
	for _, u := range c.Script {
		switch u[0] {
		case 2:
			if int64(u[1]) < init {
				monotone = false
			}
			s += int64(u[1]) - init
			init = int64(u[1])
		case 1:
			s += int64(u[1])
		default:
			cn += int64(u[1])
		}
		if s > 1<<31-1 || cn > 1<<31-1 {
			legal = false // a legal peer never lets a window exceed 2^31-1
		}
	}
	return s >= int64(c.Body) && cn >= int64(c.Body), monotone, legal
}

func c18FlowExplore(p *vreport.Part, c c18FlowCase, replay bool) bool {
	var o c18FlowObs
	body := c18FlowRun(c, &o)
	wantAll, monotone, _ := c18FlowExpect(c)
	expBody := c18Body(c.Body)
	opts := vrt.Options{Bound: c.Bound, MaxSteps: 20000}
	if replay {
		opts.Replay = true
		opts.Prefix = c.Choices
	}
	pre := "flow-control side=" + c.Side + ": "
	via := " (windows opened by WINDOW_UPDATE frames)"
	for _, u := range c.Script {
		if u[0] == 2 {
			via = " (script contains a mid-flight SETTINGS_INITIAL_WINDOW_SIZE)"
		}
	}
	st := vrt.Explore(opts, body, func(r *vrt.Result) {
		p.Eval()
		cc := c
		cc.Choices = r.Choices
		where := fmt.Sprintf("body=%d window=%d maxframe=%d script=%v schedule=%v", c.Body, c.Window, c.MaxFrame, c.Script, r.Choices)
		if o.setupErr != "" || len(r.Panics) > 0 || r.StepLimit || r.Diverged != "" || !o.peerDone || o.peerErr != nil {
			p.Violation("harness: flow-control execution did not run as scripted", fmt.Sprintf("%s: setup=%q peerDone=%v peerErr=%v %s panics=%v", where, o.setupErr, o.peerDone, o.peerErr, r.String(), r.Panics), cc)
			return
		}
		p.Distinct(fmt.Sprintf("%s|%d|%d|%d|%v|%v", c.Side, c.Body, c.Window, c.MaxFrame, c.Script, o.log))
		p.Outcome(fmt.Sprintf("done=%v frames=%d sent=%d", o.senderDone, o.dataFrames, o.cumData))
		if p.WantSample() {
			p.Sample(map[string]interface{}{"case": cc, "wire_and_peer_log": o.log, "sender_done": o.senderDone})
		}
		for _, b := range o.bad {
			kv := bytes.SplitN([]byte(b), []byte{0}, 2)
			p.Violation(pre+string(kv[0]), where+": "+string(kv[1]), cc)
		}
		if wantAll {
			switch {
			case !o.senderDone:
				p.Violation(pre+"sender still blocked although the windows granted in total cover the body"+via, fmt.Sprintf("%s: sent %d of %d bytes; blocked=%v", where, o.cumData, c.Body, r.Blocked), cc)
			case o.senderErr != nil:
				p.Violation(pre+"sender fails although the windows granted in total cover the body"+via, fmt.Sprintf("%s: %v", where, o.senderErr), cc)
			case !bytes.Equal(o.data, expBody):
				p.Violation(pre+"delivered DATA differs from the body", fmt.Sprintf("%s: delivered %d bytes, body %d bytes", where, len(o.data), c.Body), cc)
			case !o.ended:
				p.Violation(pre+"END_STREAM not sent after the complete body", where, cc)
			}
		} else if monotone && o.senderDone && o.senderErr == nil {
			p.Violation(pre+"sender finished although the granted windows do not cover the body", fmt.Sprintf("%s: sent %d of %d", where, o.cumData, c.Body), cc)
		}
	})
	p.AddTraces(st.Executions)
	if os.Getenv("VERIF_DEBUG") != "" {
		fmt.Printf("case %+v: execs=%d maxdepth=%d complete=%v\n", c, st.Executions, st.MaxDepth, st.Complete)
	}
	return st.Complete
}

// c18Compositions returns the ordered compositions of m into 1..maxParts positive parts whose
// leading parts come from the boundary set {1, 2, m/2, m-1, 16384, 16385} (the last part is the rest).
func c18Compositions(m int64, maxParts int, wide bool) [][]uint32 {
	if m <= 0 {
		return [][]uint32{{}}
	}
	cand := []int64{1, m / 2, m - 1}
	if wide {
		cand = append(cand, 2, 16384, 16385, m-16384)
	}
	var s []int64
	seen := map[int64]bool{}
	for _, v := range cand {
		if v >= 1 && v < m && !seen[v] {
			seen[v] = true
			s = append(s, v)
		}
	}
	out := [][]uint32{{uint32(m)}}
	if maxParts >= 2 {
		for _, a := range s {
			out = append(out, []uint32{uint32(a), uint32(m - a)})
		}
	}
	if maxParts >= 3 {
		for _, a := range s {
			for _, b := range s {
				if a+b < m {
					out = append(out, []uint32{uint32(a), uint32(b), uint32(m - a - b)})
				}
			}
		}
	}
	return out
}

// c18Merges returns all interleavings of the stream increments and the connection increments (orders kept).
func c18Merges(s, c []uint32) [][][2]uint32 {
	if len(s) == 0 && len(c) == 0 {
		return [][][2]uint32{{}}
	}
	var out [][][2]uint32
	if len(s) > 0 {
		for _, rest := range c18Merges(s[1:], c) {
			out = append(out, append([][2]uint32{{1, s[0]}}, rest...))
		}
	}
	if len(c) > 0 {
		for _, rest := range c18Merges(s, c[1:]) {
			out = append(out, append([][2]uint32{{0, c[0]}}, rest...))
		}
	}
	return out
}

// c18FlowCases: quick = narrow increment alphabet {1, m/2, m-1}, <=2 increments, <=2 preemptions;
// thorough = the same scripts with <=4 preemptions, plus (bodies <= 65535) the wide alphabet with <=3 increments and <=3 preemptions.
func c18FlowCases() []c18FlowCase {
	if !vreport.Thorough() {
		return c18FlowCasesFor(false, 2, 2)
	}
	cases := c18FlowCasesFor(false, 2, 4)
	have := map[string]bool{}
	for _, c := range cases {
		have[fmt.Sprint(c.Side, c.Body, c.Window, c.MaxFrame, c.Script)] = true
	}
	for _, c := range c18FlowCasesFor(true, 3, 3) {
		if c.Body > c18ConnWindow {
			continue // bodies beyond the connection window: narrow alphabet only (merges of two wide compositions explode)
		}
		if !have[fmt.Sprint(c.Side, c.Body, c.Window, c.MaxFrame, c.Script)] {
			cases = append(cases, c)
		}
	}
	return cases
}

func c18FlowCasesFor(th bool, parts, bound int) []c18FlowCase {
	bodies := []int{0, 1, 7, 16384, 16385, 40000, 70000}
	windows := []uint32{0, 1, 5, 65535, 1<<31 - 1}
	frames := []uint32{16384, 32768}
	var cases []c18FlowCase
	for _, side := range []string{"server", "client"} {
		for _, b := range bodies {
			for _, w := range windows {
				for _, f := range frames {
					ms := int64(b) - int64(w)       // missing stream window
					mc := int64(b) - c18ConnWindow // missing connection window
					if ms < 0 {
						ms = 0
					}
					if mc < 0 {
						mc = 0
					}
					var scripts [][][2]uint32
					p2 := parts
					if ms > 0 && mc > 0 && !th {
						p2 = 1
					}
					for _, sc := range c18Compositions(ms, p2, th) {
						for _, cc := range c18Compositions(mc, p2, th) {
							scripts = append(scripts, c18Merges(sc, cc)...)
						}
					}
					// insufficient totals: nothing at all; one byte short on the stream / on the connection;
					// the whole missing stream window addressed to the connection instead (and vice versa)
					if ms > 0 {
						scripts = append(scripts, c18Merges(nil, c18Compositions(mc, 1, false)[0])...)
						if ms > 1 {
							for _, m := range c18Merges([]uint32{uint32(ms - 1)}, c18Compositions(mc, 1, false)[0]) {
								scripts = append(scripts, m)
							}
						}
						wrong := append([][2]uint32{{0, uint32(ms)}}, c18Merges(nil, c18Compositions(mc, 1, false)[0])[0]...)
						scripts = append(scripts, wrong)
					}
					if mc > 0 {
						scripts = append(scripts, c18Merges(c18Compositions(ms, 1, false)[0], nil)...)
						if mc > 1 {
							scripts = append(scripts, c18Merges(c18Compositions(ms, 1, false)[0], []uint32{uint32(mc - 1)})...)
						}
						wrong := append(c18Merges(c18Compositions(ms, 1, false)[0], nil)[0], [2]uint32{1, uint32(mc)})
						scripts = append(scripts, wrong)
					}
					// mid-flight SETTINGS_INITIAL_WINDOW_SIZE (only where the connection window is not the limit)
					if mc == 0 {
						if ms > 0 {
							scripts = append(scripts, [][2]uint32{{2, w + uint32(ms)}}) // raised to exactly what is needed
							scripts = append(scripts, [][2]uint32{{1, 1}, {2, w + uint32(ms) - 1}}, [][2]uint32{{2, w + uint32(ms) - 1}, {1, 1}})
							if ms > 1 {
								scripts = append(scripts, [][2]uint32{{2, w + uint32(ms) - 1}}) // one byte short
							}
						}
						if w >= 5 && b > 5 {
							hi := w
							if uint32(b) > hi {
								hi = uint32(b)
							}
							scripts = append(scripts, [][2]uint32{{2, 0}, {2, hi}}) // lowered to 0, raised again
							scripts = append(scripts, [][2]uint32{{2, 0}})          // lowered to 0: only the monitor applies
						}
					}
					seen := map[string]bool{}
					for _, s := range scripts {
						k := fmt.Sprint(s)
						if seen[k] {
							continue
						}
						seen[k] = true
						cand := c18FlowCase{Side: side, Body: b, Window: w, MaxFrame: f, Script: s, Bound: bound}
						if _, _, legal := c18FlowExpect(cand); !legal {
							continue
						}
						cases = append(cases, cand)
					}
				}
			}
		}
	}
	return cases
}

func TestVerifC18FlowControl(t *testing.T) {
	name := "flow-control"
	p := vreport.Begin("C18", name, time.Duration(vreport.Pick(4, 30))*time.Minute)
	var rc c18FlowCase
	if vreport.Replaying() {
		if vreport.ReplayFor("C18", name, &rc) {
			c18FlowExplore(p, rc, true)
			p.End(true, "replay", "replay of one recorded schedule")
		}
		return
	}
	cases := c18FlowCases()
	si, sn := vreport.Shard()
	complete := true
	// determinism self-check: the default schedule of the first blocking case twice, same wire log
	for _, c := range cases {
		if len(c.Script) >= 2 {
			var o1, o2 c18FlowObs
			vrt.Explore(vrt.Options{Replay: true}, c18FlowRun(c, &o1), func(*vrt.Result) {})
			l1 := fmt.Sprint(o1.log)
			vrt.Explore(vrt.Options{Replay: true}, c18FlowRun(c, &o2), func(*vrt.Result) {})
			if l1 != fmt.Sprint(o2.log) || len(o1.log) == 0 {
				vreport.HarnessError("C18", name, "default schedule is not deterministic: "+l1+" vs "+fmt.Sprint(o2.log))
				return
			}
			break
		}
	}
	n := 0
	for i, c := range cases {
		if i%sn != si {
			continue
		}
		if p.Expired() {
			complete = false
			break
		}
		n++
		if !c18FlowExplore(p, c, false) {
			complete = false
		}
	}
	p.Note("cases", n)
	p.Note("cases_all_shards", len(cases))
	nb := map[int]int{}
	for _, c := range cases {
		nb[c.Bound]++
	}
	p.Note("cases_by_preemption_bound", fmt.Sprint(nb))
	p.End(complete, "sides server (MStream.SendResponse) and client (MClientStream.RoundTrip); body {0,1,7,16384,16385,40000,70000} x peer initial window {0,1,5,65535,2^31-1} x max frame size {16384,32768}; peer scripts: compositions of the missing stream / connection window into WINDOW_UPDATE increments, all merges of stream and connection increments, plus insufficient scripts (none, one byte short, addressed to the wrong window), plus mid-flight SETTINGS_INITIAL_WINDOW_SIZE (raise to exactly / one short of the need, mixed with a WINDOW_UPDATE, lower to 0 and raise again); 2 threads (sender, peer); "+
		map[bool]string{false: "quick: <=2 increments with parts from {1, m/2, m-1}, all interleavings with <=2 preemptions", true: "thorough: <=2 increments with parts from {1, m/2, m-1} and <=4 preemptions, plus (bodies <= 65535) <=3 increments with parts from {1, 2, m/2, m-1, 16384, 16385, m-16384} and <=3 preemptions"}[vreport.Thorough()],
		"every case x every schedule within the preemption bound on the instrumented package; evaluations = executions; distinct = (case, wire+peer event log); the first SETTINGS (initial window, max frame size) is delivered before the stream starts; mid-flight SETTINGS change only the initial window")
}
