//go:build verif

package http2

// C18 (a)+(schedules): HPACK is ONE ordered compression context per connection
// and direction: the n-th header block produced by the connection's encoder
// must be the n-th block the peer's decoder consumes. "Every header list
// encoded by one side decodes to the same list on the other" therefore also
// has a schedule quantifier as soon as two streams of one connection are
// answered (server) / started (client) by different goroutines — which is how
// MOSN works: every stream is driven by its own worker.
//
// Seam: one real MServerConn (threads call MStream.SendResponse for different
// open streams: response HEADERS [+CONTINUATION], optionally DATA and trailers)
// and, symmetrically, one real MClientConn (threads call MClientStream.RoundTrip:
// request HEADERS [+CONTINUATION], optionally DATA and trailers) over the
// recording fake connection c18Conn, which records the buffers in Write-call
// order = wire order. Package instrumented with set "http2": every Lock/Unlock
// of sc.mu / cc.mu / cc.hmu and every Write call on the fake connection is a
// scheduling point; all interleavings of the
// 2 (thorough also 3) threads within the preemption bound.
//
// Header lists: every stream carries the repeated field x-common (the first
// block on the wire inserts it into the dynamic table, every later block refers
// to it by index), its own fields x-s<i> / x-t<i> (distinct names and values
// per stream: new insertions that shift the indices), explicit content-type and
// date (server) / user-agent (client); in some cases one stream carries a
// 40000-byte value (never indexed, forces HEADERS + CONTINUATION). After
// quiescence thread 0 sends one more block sequentially on a fresh stream that
// refers to the entries every earlier stream inserted.
//
// Oracle (the reference golang.org/x/net/http2 Framer with its hpack decoder,
// fed with the recorded bytes in wire order):
//   - frame-wise: nothing but CONTINUATION frames of the same stream between a
//     HEADERS frame without END_HEADERS and the frame with END_HEADERS (RFC 7540 4.3;
//     the key names the kind of the intruding frame);
//   - every HEADERS(+CONTINUATION) group decodes without error;
//   - the decoded fields of each group equal, as a multiset, the list MOSN was
//     asked to send for that stream (MOSN enumerates http.Header maps, so the
//     order of different names is not compared; content-length is compared only
//     where the harness asked for one);
//   - client: new stream ids appear on the wire in increasing order (RFC 7540 5.1.1);
//   - the final sequential block decodes to its list: encoder and decoder
//     dynamic tables are still in sync at the end;
//   - every thread returns nil, every expected group is on the wire exactly once.

import (
	"bytes"
	"context"
	"fmt"
	"io"
	"net/http"
	"os"
	"sort"
	"strconv"
	"strings"
	"testing"
	"time"

	xhttp2 "golang.org/x/net/http2"
	xhpack "golang.org/x/net/http2/hpack"
	"mosn.io/mosn/pkg/verifrt/vreport"
	"mosn.io/mosn/pkg/verifrt/vrt"
	"mosn.io/pkg/buffer"
)

type c18HCase struct {
	Side     string `json:"side"`     // "server" | "client"
	Threads  int    `json:"threads"`  // concurrent streams
	Big      int    `json:"big"`      // index of the stream whose header list needs CONTINUATION (-1: none)
	Trailers bool   `json:"trailers"` // every stream also sends a small body and trailers (a second header block per stream)
	Bound    int    `json:"bound"`
	Choices  []int  `json:"choices,omitempty"`
}

type c18HObs struct {
	conn     *c18Conn
	ids      []uint32 // stream id of thread i (last = the final sequential stream)
	done     []bool
	errs     []error
	setupErr string
}

func c18HBigValue() string { return strings.Repeat("0123456789abcdef", 40000/16) }

// c18HFields: the custom fields of stream i (i == n: the final sequential stream, which repeats
// the own field of every concurrent stream so that its block refers to all their insertions).
func c18HFields(c c18HCase, i int) [][2]string {
	f := [][2]string{{"x-common", "shared-value-of-all-streams"}}
	if i < c.Threads {
		f = append(f, [2]string{fmt.Sprintf("x-s%d", i), fmt.Sprintf("value-of-stream-%d", i)})
		if i == c.Big {
			f = append(f, [2]string{"x-big", c18HBigValue()})
		}
	} else {
		for k := 0; k < c.Threads; k++ {
			f = append(f, [2]string{fmt.Sprintf("x-s%d", k), fmt.Sprintf("value-of-stream-%d", k)})
		}
		f = append(f, [2]string{"x-final", "last"})
	}
	return f
}

func c18HTrailerFields(c c18HCase, i int) [][2]string {
	return [][2]string{{"x-common-trailer", "shared-trailer-value"}, {fmt.Sprintf("x-t%d", i), fmt.Sprintf("trailer-of-stream-%d", i)}}
}

const c18HBody = "abc"

// c18HExpect: the header blocks MOSN is asked to send for stream i, as sorted "name: value" lists.
func c18HExpect(c c18HCase, i int) [][]string {
	var h []string
	for _, kv := range c18HFields(c, i) {
		h = append(h, kv[0]+": "+kv[1])
	}
	withBody := c.Trailers && i < c.Threads
	if c.Side == "server" {
		h = append(h, ":status: 200", "content-type: application/octet-stream", "date: Thu, 24 Sep 2026 00:00:00 GMT")
	} else {
		m := "GET"
		if withBody {
			m = "POST"
		}
		h = append(h, ":authority: h.example", ":method: "+m, fmt.Sprintf(":path: /p%d", i), ":scheme: http", "user-agent: verif")
	}
	if withBody {
		h = append(h, "content-length: "+strconv.Itoa(len(c18HBody)))
	}
	sort.Strings(h)
	out := [][]string{h}
	if withBody {
		var t []string
		for _, kv := range c18HTrailerFields(c, i) {
			t = append(t, kv[0]+": "+kv[1])
		}
		sort.Strings(t)
		out = append(out, t)
	}
	return out
}

func c18HRun(c c18HCase, o *c18HObs) func() {
	n := c.Threads + 1
	w := newC18Writer()
	reqHeaders := make([][]byte, n)
	for i := 0; i < n; i++ {
		w.out.Reset()
		c18Headers(w, uint32(2*i+1), []xhpack.HeaderField{{Name: ":method", Value: "GET"}, {Name: ":scheme", Value: "http"}, {Name: ":path", Value: "/"}, {Name: ":authority", Value: "h"}}, true, 0, xhttp2.PriorityParam{}, nil)
		reqHeaders[i] = append([]byte(nil), w.out.Bytes()...)
	}
	return func() {
		*o = c18HObs{conn: newC18Conn(), ids: make([]uint32, n), done: make([]bool, n), errs: make([]error, n)}
		o.conn.yield = true // a Write call is a scheduling point: frames of one block are separate Write calls
		ctx := context.Background()
		senders := make([]func() error, n)
		if c.Side == "server" {
			sc := NewServerConn(o.conn)
			for i := 0; i < n; i++ {
				f, _, err := sc.Framer.ReadFrame(ctx, buffer.NewIoBufferBytes(reqHeaders[i]), 0)
				if err != nil {
					o.setupErr = err.Error()
					return
				}
				ms, _, _, _, err := sc.HandleFrame(ctx, f)
				if err != nil || ms == nil {
					o.setupErr = fmt.Sprintf("request HEADERS %d: %v", i, err)
					return
				}
				hd := http.Header{"Content-Type": []string{"application/octet-stream"}, "Date": []string{"Thu, 24 Sep 2026 00:00:00 GMT"}}
				for _, kv := range c18HFields(c, i) {
					hd.Set(kv[0], kv[1])
				}
				ms.Response = &http.Response{StatusCode: 200, Header: hd}
				if c.Trailers && i < c.Threads {
					hd.Set("Content-Length", strconv.Itoa(len(c18HBody)))
					ms.SendData = buffer.NewIoBufferBytes([]byte(c18HBody))
					tr := http.Header{}
					for _, kv := range c18HTrailerFields(c, i) {
						tr.Set(kv[0], kv[1])
					}
					ms.Trailer = &tr
				}
				o.ids[i] = ms.ID()
				senders[i] = ms.SendResponse
			}
		} else {
			cc := NewClientConn(o.conn)
			for i := 0; i < n; i++ {
				i := i
				method := "GET"
				withBody := c.Trailers && i < c.Threads
				if withBody {
					method = "POST"
				}
				req, err := http.NewRequest(method, fmt.Sprintf("http://h.example/p%d", i), nil)
				if err != nil {
					o.setupErr = err.Error()
					return
				}
				req.Header.Set("User-Agent", "verif")
				for _, kv := range c18HFields(c, i) {
					req.Header.Set(kv[0], kv[1])
				}
				ms := NewMClientStream(cc, req)
				if withBody {
					req.Header.Set("Content-Length", strconv.Itoa(len(c18HBody)))
					ms.SendData = buffer.NewIoBufferBytes([]byte(c18HBody))
					tr := http.Header{}
					for _, kv := range c18HTrailerFields(c, i) {
						tr.Set(kv[0], kv[1])
					}
					ms.Trailer = &tr
				}
				senders[i] = func() error {
					if err := ms.RoundTrip(ctx); err != nil { // HEADERS
						return err
					}
					o.ids[i] = ms.GetID()
					if withBody {
						return ms.RoundTrip(ctx) // DATA + trailers
					}
					return nil
				}
			}
		}
		for i := 0; i < c.Threads; i++ {
			i := i
			vrt.GoNamed(fmt.Sprintf("stream%c", 'A'+i), func() {
				o.errs[i] = senders[i]()
				o.done[i] = true
			})
		}
		vrt.Quiesce()
		// the final block, sequentially
		o.errs[n-1] = senders[n-1]()
		o.done[n-1] = true
	}
}

type c18HGroup struct {
	stream uint32
	fields []string
}

// c18HDecode feeds the wire bytes to the reference. It returns the decoded groups in wire order,
// the frame shape (for the distinct key) and what went wrong, if anything: kind "" | "interleaved" | "decode".
func c18HDecode(wire []byte) (groups []c18HGroup, shape []string, kind, detail string) {
	// raw pass: RFC 7540 4.3
	open := uint32(0)
	c18AFrames(wire, func(m string) { kind, detail = "decode", "malformed frame on the wire: "+m }, func(typ, flags byte, sid uint32, p []byte) {
		shape = append(shape, fmt.Sprintf("%d/%d/%#x", typ, sid, flags))
		if kind != "" {
			return
		}
		switch {
		case open != 0 && (typ != 9 || sid != open):
			name := map[byte]string{0: "DATA", 1: "HEADERS", 9: "CONTINUATION"}[typ]
			if name == "" {
				name = fmt.Sprintf("type-%d", typ)
			}
			kind, detail = "interleaved:a "+name+" frame of another stream is written between a HEADERS frame and its CONTINUATION", fmt.Sprintf("frame type %d of stream %d inside the header block of stream %d", typ, sid, open)
		case open == 0 && typ == 9:
			kind, detail = "interleaved:a CONTINUATION frame without an open header block is written", fmt.Sprintf("stream %d", sid)
		}
		if (typ == 1 || typ == 9) && flags&0x4 == 0 {
			open = sid
		} else if typ == 1 || typ == 9 {
			open = 0
		}
	})
	if kind == "" && open != 0 {
		kind, detail = "interleaved:a header block is never ended", fmt.Sprintf("stream %d", open)
	}
	if kind != "" {
		return
	}
	fr := xhttp2.NewFramer(io.Discard, bytes.NewReader(wire))
	fr.ReadMetaHeaders = xhpack.NewDecoder(4096, nil)
	fr.SetMaxReadFrameSize(1 << 20)
	fr.MaxHeaderListSize = 1 << 20
	for {
		f, err := fr.ReadFrame()
		if err == io.EOF {
			return
		}
		if err != nil {
			kind, detail = "decode", fmt.Sprintf("after %d header blocks: %v", len(groups), err)
			return
		}
		if mh, ok := f.(*xhttp2.MetaHeadersFrame); ok {
			g := c18HGroup{stream: mh.StreamID}
			for _, hf := range mh.Fields {
				v := hf.Value
				g.fields = append(g.fields, hf.Name+": "+v)
			}
			if mh.Truncated {
				g.fields = append(g.fields, "(truncated)")
			}
			sort.Strings(g.fields)
			groups = append(groups, g)
		}
	}
}

func c18HShort(l []string) string {
	var b []string
	for _, s := range l {
		if len(s) > 60 {
			s = s[:40] + fmt.Sprintf("...(%d bytes)", len(s))
		}
		b = append(b, s)
	}
	return "[" + strings.Join(b, " | ") + "]"
}

func c18HExplore(p *vreport.Part, c c18HCase, replay bool) bool {
	var o c18HObs
	body := c18HRun(c, &o)
	opts := vrt.Options{Bound: c.Bound, MaxSteps: 20000}
	if replay {
		opts.Replay = true
		opts.Prefix = c.Choices
	}
	n := c.Threads + 1
	pre := "hpack-wire-order side=" + c.Side + ": "
	tag := fmt.Sprintf("%s|%d|%d|%v", c.Side, c.Threads, c.Big, c.Trailers)
	st := vrt.Explore(opts, body, func(r *vrt.Result) {
		p.Eval()
		cc := c
		cc.Choices = r.Choices
		where := fmt.Sprintf("threads=%d big=%d trailers=%v schedule=%v", c.Threads, c.Big, c.Trailers, r.Choices)
		if o.setupErr != "" || len(r.Panics) > 0 || r.StepLimit || r.Diverged != "" {
			p.Violation("harness: hpack-wire-order execution did not run as scripted", fmt.Sprintf("%s: setup=%q %s panics=%v", where, o.setupErr, r.String(), r.Panics), cc)
			return
		}
		for i := 0; i < n; i++ {
			if !o.done[i] || o.errs[i] != nil {
				p.Violation(pre+"a header writer does not return or returns an error", fmt.Sprintf("%s: stream thread %d done=%v err=%v blocked=%v", where, i, o.done[i], o.errs[i], r.Blocked), cc)
				return
			}
		}
		groups, shape, kind, detail := c18HDecode(o.conn.all())
		p.Distinct(tag + "|" + strings.Join(shape, ","))
		var order []string
		for _, g := range groups {
			order = append(order, fmt.Sprint(g.stream))
		}
		p.Outcome(kind + "|" + strings.Join(order, ","))
		if p.WantSample() {
			p.Sample(map[string]interface{}{"case": cc, "frames_type/stream/flags": shape, "header_blocks_in_wire_order_by_stream": order})
		}
		switch {
		case strings.HasPrefix(kind, "interleaved:"):
			p.Violation(pre+strings.TrimPrefix(kind, "interleaved:")+" (RFC 7540 4.3)", where+": "+detail+"; frames="+strings.Join(shape, ","), cc)
			return
		case kind == "decode":
			p.Violation(pre+"the reference decoder cannot decode the header blocks in wire order", where+": "+detail+"; frames="+strings.Join(shape, ","), cc)
			return
		}
		// group the decoded blocks per stream, in wire order
		per := map[uint32][][]string{}
		last := uint32(0)
		for _, g := range groups {
			if c.Side == "client" && len(per[g.stream]) == 0 {
				if g.stream < last {
					p.Violation(pre+"HEADERS of a new stream written after HEADERS of a higher stream id (RFC 7540 5.1.1)", fmt.Sprintf("%s: stream %d after %d", where, g.stream, last), cc)
				}
				last = g.stream
			}
			per[g.stream] = append(per[g.stream], g.fields)
		}
		for i := 0; i < n; i++ {
			want := c18HExpect(c, i)
			got := per[o.ids[i]]
			which := "a concurrently written"
			if i == n-1 {
				which = "the final sequential"
			}
			if len(got) != len(want) {
				p.Violation(pre+"number of header blocks on the wire differs from the blocks MOSN was asked to send", fmt.Sprintf("%s: stream %d (thread %d): %d blocks, expected %d", where, o.ids[i], i, len(got), len(want)), cc)
				continue
			}
			for k := range want {
				g := got[k]
				if !c18HHas(want[k], "content-length") {
					g = c18HWithout(g, "content-length") // derived by MOSN, not asked for: not compared
				}
				if strings.Join(g, "\n") != strings.Join(want[k], "\n") {
					blk := "header list"
					if k == 1 {
						blk = "trailer list"
					}
					p.Violation(pre+"decoded "+blk+" of "+which+" stream differs from the list MOSN was asked to send",
						fmt.Sprintf("%s: stream %d (thread %d): decoded %s, expected %s; frames=%s", where, o.ids[i], i, c18HShort(g), c18HShort(want[k]), strings.Join(shape, ",")), cc)
				}
			}
		}
	})
	p.AddTraces(st.Executions)
	if os.Getenv("VERIF_DEBUG") != "" {
		fmt.Printf("case %+v: execs=%d maxdepth=%d complete=%v\n", c, st.Executions, st.MaxDepth, st.Complete)
	}
	return st.Complete
}

func c18HHas(l []string, name string) bool {
	for _, s := range l {
		if strings.HasPrefix(s, name+": ") {
			return true
		}
	}
	return false
}

func c18HWithout(l []string, name string) []string {
	var out []string
	for _, s := range l {
		if !strings.HasPrefix(s, name+": ") {
			out = append(out, s)
		}
	}
	return out
}

func c18HCases() []c18HCase {
	var cases []c18HCase
	for _, side := range []string{"server", "client"} {
		for _, tr := range []bool{false, true} {
			for _, big := range []int{-1, 0, 1} {
				b := vreport.Pick(2, 3)
				cases = append(cases, c18HCase{Side: side, Threads: 2, Big: big, Trailers: tr, Bound: b})
			}
		}
		if !vreport.Thorough() {
			cases = append(cases, c18HCase{Side: side, Threads: 3, Big: 1, Trailers: false, Bound: 1})
		} else {
			for _, tr := range []bool{false, true} {
				for _, big := range []int{-1, 1, 2} {
					b := 3
					if tr {
						b = 2
					}
					cases = append(cases, c18HCase{Side: side, Threads: 3, Big: big, Trailers: tr, Bound: b})
				}
			}
		}
	}
	return cases
}

func TestVerifC18HpackOrder(t *testing.T) {
	name := "hpack-wire-order"
	p := vreport.Begin("C18", name, time.Duration(vreport.Pick(2, 20))*time.Minute)
	var rc c18HCase
	if vreport.Replaying() {
		if vreport.ReplayFor("C18", name, &rc) {
			c18HExplore(p, rc, true)
			p.End(true, "replay", "replay of one recorded schedule")
		}
		return
	}
	// vacuity self-check: on the default schedule the blocks reach the wire in thread order, need a CONTINUATION
	// where asked, and the later blocks really refer to dynamic-table entries (they are shorter than the first)
	for _, side := range []string{"server", "client"} {
		var o c18HObs
		c := c18HCase{Side: side, Threads: 2, Big: 1, Trailers: true}
		vrt.Explore(vrt.Options{Replay: true}, c18HRun(c, &o), func(*vrt.Result) {})
		groups, shape, kind, detail := c18HDecode(o.conn.all())
		cont := strings.Contains(strings.Join(shape, ","), "9/")
		if o.setupErr != "" || kind != "" || len(groups) != 5 || !cont {
			vreport.HarnessError("C18", name, fmt.Sprintf("self-check side=%s: setup=%q kind=%q %s groups=%d continuation=%v shape=%v", side, o.setupErr, kind, detail, len(groups), cont, shape))
			return
		}
	}
	cases := c18HCases()
	si, sn := vreport.Shard()
	complete := true
	n := 0
	for i, c := range cases {
		if i%sn != si {
			continue
		}
		if p.Expired() {
			complete = false
			break
		}
		n++
		if !c18HExplore(p, c, false) {
			complete = false
		}
	}
	p.Note("cases", n)
	p.Note("cases_all_shards", len(cases))
	p.End(complete, "one MServerConn (threads call MStream.SendResponse for different open streams) and one MClientConn (threads call MClientStream.RoundTrip for different requests) on a fake connection recording Write-call order; header lists: repeated field x-common (inserted by the first block, indexed by the later ones), per-stream fields x-s<i>, explicit content-type/date (server) or user-agent (client), optionally a 40000-byte value on one stream (HEADERS+CONTINUATION), optionally a 3-byte body and trailers (x-common-trailer + x-t<i>: a second block per stream); a final sequential block on a fresh stream refers to every earlier insertion; "+
		map[bool]string{false: "quick: 2 threads, CONTINUATION on none / the older / the younger stream, with and without trailers, <=2 preemptions; 3 threads (headers only, CONTINUATION on the second) with <=1 preemption", true: "thorough: 2 threads with <=3 preemptions; 3 threads with <=3 preemptions (headers only) / <=2 (with trailers), CONTINUATION on none / second / third stream"}[vreport.Thorough()],
		"every case x every schedule within the preemption bound on the instrumented package; evaluations = executions; distinct = (case, sequence of frame type/stream/flags on the wire); oracle = the recorded bytes in wire order through the x/net Framer + hpack decoder: no foreign frame inside a header block, every block decodes, decoded multiset of fields == list asked for (content-length only where asked), client stream ids increasing, final sequential block decodes")
}
