//go:build verif

package http2

// C08 part "h2state" (unit h2framer): a peer that violates the PROTOCOL STATE
// rules of HTTP/2 - not the frame syntax - is contained to its connection.
//
// The other HTTP/2 parts of C08 corrupt single frames and stop at
// MFramer.ReadFrame. This part drives what the read goroutine of a connection
// does with a well-formed frame: MFramer.ReadFrame -> MServerConn.HandleFrame
// (peer = downstream client) and MFramer.ReadFrame -> MClientConn.HandleFrame
// (peer = upstream server), with SEQUENCES of frames that ignore the rules the
// connection state imposes:
//
//	DATA / HEADERS / trailers / CONTINUATION / WINDOW_UPDATE / RST_STREAM / PRIORITY / PUSH_PROMISE
//	    for streams in every lifecycle state: id 0, open, half-closed, closed (reset by the peer / by MOSN),
//	    idle odd, idle even (never opened)
//	DATA beyond the advertised flow-control window: one 1,000,000-byte frame and a burst of four of them
//	    (MOSN as client advertises a 4 MiB stream window and refreshes it only when < 4 KiB are left,
//	    so "4 x 1,000,000 then 1,000,000 more" really overruns it); thorough: 1 MiB frames and
//	    255 x 16,384 + 12,288 bytes (leaves exactly 4,096)
//	WINDOW_UPDATE with increment 0, 1 and 2^31-1 (overflows every window), on the connection and on streams
//	SETTINGS with INITIAL_WINDOW_SIZE 0, 2^31-1 (overflows a stream window that was raised) and 2^31 (illegal),
//	    an unsolicited SETTINGS ACK, PING, GOAWAY, an unknown frame type, HEADERS without END_HEADERS followed
//	    by anything
//	local actions of MOSN in between: a further request on the upstream connection; a response, a reset and
//	    a graceful shutdown on the downstream connection
//
// Exploration: breadth first over the event alphabet, per role and start
// "world" (client: stream 1 = GET or HEAD request awaiting its response, stream 3
// reset by MOSN; server: no stream yet, or stream 1 open, 3 half-closed (remote),
// 5 reset by the peer). A successor is produced by replaying the history on a
// FRESH real connection object plus one event. Two histories are merged when the
// canonical state is equal: the projection (c08stClientState / c08stServerState)
// lists every field of MClientConn / MServerConn, their streams and the framer
// that ReadFrame / HandleFrame read - flow windows in both directions, the peer's
// settings, stream maps with all per-stream flags and counters, stream id
// watermarks, GOAWAY state, SETTINGS ACK bookkeeping, the frame-order state of
// the framer and the unread bytes of the connection buffer - so merged states
// have the same futures (the HPACK tables never change: all header blocks of the
// alphabet use static-table / literal-without-indexing representations). A
// history that ended in a connection-level error (the real stream connection
// closes the connection then) is not extended.
//
// Oracle, per frame (the statement: "never crash or wedge the proxy ... a
// failure affects only that connection"):
//
//	O1 the process survives: the exploration runs in a child process; a death (runtime fatal error such
//	   as "sync: unlock of unlocked mutex" cannot be recovered by anybody) is the violation of the frame
//	   that was being handled, confirmed by re-running that one sequence in a fresh child
//	O2 no panic escapes ReadFrame / HandleFrame
//	O3 every call returns: the exploring goroutine parked inside the connection code (mutex, cond, channel;
//	   decided on consistent goroutine snapshots, nobody else knows the object) or spinning (10 s of process
//	   CPU without progress) is a wedge
//	O4 no mutex of the connection object is left locked after the call (every later user would block for good)
//	O5 an ACCEPTED WINDOW_UPDATE / SETTINGS INITIAL_WINDOW_SIZE never wraps a send window (new >= old for a
//	   positive change): growth beyond 2^31-1 is either refused with an error or leaves the window alone
//	O6 ReadFrame never hands out a frame without consuming it (Dispatch would spin)
//	O7 a valid exchange on ANOTHER connection object in the same process still works (request -> response on
//	   a fresh MServerConn, response HEADERS + DATA on a fresh MClientConn) after the first transition of every
//	   class (frame kind in its stream state -> outcome), after every violation and after every 256th transition
//
// Which error a violating sequence gets - stream error, connection error, or
// silently ignored where RFC 7540 allows / x/net does the same - is NOT compared.
// Memory: one shared 1 MiB payload, DATA frames are read from it in place.

import (
	"bufio"
	"bytes"
	"context"
	"encoding/json"
	"fmt"
	"io"
	golog "log"
	"net/http"
	"os"
	"os/exec"
	"regexp"
	"runtime"
	"sort"
	"strconv"
	"strings"
	gosync "sync"
	"sync/atomic"
	"syscall"
	"testing"
	"time"

	"mosn.io/api"
	"mosn.io/pkg/buffer"
	plog "mosn.io/pkg/log"

	mlog "mosn.io/mosn/pkg/log"
	"mosn.io/mosn/pkg/verifrt/c08"
	"mosn.io/mosn/pkg/verifrt/c08g"
	"mosn.io/mosn/pkg/verifrt/vreport"
)

const c08stPart = "h2state"

type c08stCase struct {
	Role   string   `json:"role"`
	World  string   `json:"world"`
	Events []string `json:"events"`
}

// ---------------------------------------------------------------- wire

type c08stFrm struct {
	typ, flags byte
	sid        uint32
	p          []byte
	big        int // > 0: payload = that many bytes of the shared buffer
}

const c08stMaxPayload = 1 << 20

// c08stBig: 9 bytes of frame header + the one shared payload
var c08stBig = make([]byte, 9+c08stMaxPayload)

// c08stScratch: the read buffer of the connection under exploration (one live connection per process)
var c08stScratch = make([]byte, 0, 64<<10+c08stMaxPayload)

func (f c08stFrm) plen() int {
	if f.big > 0 {
		return f.big
	}
	return len(f.p)
}

func (f c08stFrm) header() [9]byte {
	n := f.plen()
	return [9]byte{byte(n >> 16), byte(n >> 8), byte(n), f.typ, f.flags, byte(f.sid >> 24), byte(f.sid >> 16), byte(f.sid >> 8), byte(f.sid)}
}

func c08stU32(v uint32) []byte { return []byte{byte(v >> 24), byte(v >> 16), byte(v >> 8), byte(v)} }

// header blocks that never touch an HPACK dynamic table
var (
	c08stBlkStatus200 = []byte{0x88}                                                  // :status 200
	c08stBlkGET       = []byte{0x82, 0x86, 0x84, 0x01, 0x01, 'a'}                     // GET http / authority a
	c08stBlkPOST      = []byte{0x83, 0x86, 0x84, 0x01, 0x01, 'a'}                     // POST http / authority a
	c08stBlkPOSTcl2   = []byte{0x83, 0x86, 0x84, 0x01, 0x01, 'a', 0x0f, 0x0d, 0x01, '2'} // + content-length: 2
	c08stBlkTrailer   = []byte{0x00, 0x01, 'x', 0x01, 'y'}                            // x: y
)

// ---------------------------------------------------------------- events

type c08stEv struct {
	name   string
	class  string // words for the finding key
	sid    uint32
	conn   bool // connection-level event (no stream in the label)
	frames []c08stFrm
	local  string // action of MOSN instead of frames
	isWU   bool
	isIWS  bool
	data   bool
}

func c08stSidName(sid uint32) string { return "(" + strconv.Itoa(int(sid)) + ")" }

func c08stAlphabet(role string) []c08stEv {
	var evs []c08stEv
	var sids []uint32
	if role == "client" {
		sids = []uint32{0, 1, 2, 3, 5, 7}
	} else {
		sids = []uint32{0, 1, 2, 3, 5, 7, 9}
	}
	const (
		fEndStream  = 0x1
		fEndHeaders = 0x4
		fPadded     = 0x8
	)
	for _, sid := range sids {
		s := c08stSidName(sid)
		add := func(name, class string, frames ...c08stFrm) *c08stEv {
			evs = append(evs, c08stEv{name: name + s, class: class, sid: sid, frames: frames})
			return &evs[len(evs)-1]
		}
		// HEADERS
		if role == "client" {
			add("H200", "response HEADERS", c08stFrm{typ: 1, flags: fEndHeaders, sid: sid, p: c08stBlkStatus200})
			add("H200e", "response HEADERS with END_STREAM", c08stFrm{typ: 1, flags: fEndHeaders | fEndStream, sid: sid, p: c08stBlkStatus200})
			add("HnoEH", "HEADERS without END_HEADERS", c08stFrm{typ: 1, flags: 0, sid: sid, p: c08stBlkStatus200})
		} else {
			add("Hreq", "request HEADERS", c08stFrm{typ: 1, flags: fEndHeaders, sid: sid, p: c08stBlkPOST})
			add("HreqCL", "request HEADERS with content-length", c08stFrm{typ: 1, flags: fEndHeaders, sid: sid, p: c08stBlkPOSTcl2})
			add("HreqE", "request HEADERS with END_STREAM", c08stFrm{typ: 1, flags: fEndHeaders | fEndStream, sid: sid, p: c08stBlkGET})
			add("HnoEH", "HEADERS without END_HEADERS", c08stFrm{typ: 1, flags: 0, sid: sid, p: c08stBlkPOST})
		}
		add("HT", "trailer HEADERS with END_STREAM", c08stFrm{typ: 1, flags: fEndHeaders | fEndStream, sid: sid, p: c08stBlkTrailer})
		add("HTn", "HEADERS without pseudo fields and without END_STREAM", c08stFrm{typ: 1, flags: fEndHeaders, sid: sid, p: c08stBlkTrailer})
		add("CONT", "CONTINUATION", c08stFrm{typ: 9, flags: fEndHeaders, sid: sid})
		// DATA
		d := func(name string, frames ...c08stFrm) {
			add(name, "DATA", frames...).data = true
		}
		d("D0", c08stFrm{typ: 0, sid: sid})
		d("D0e", c08stFrm{typ: 0, flags: fEndStream, sid: sid})
		d("D1", c08stFrm{typ: 0, sid: sid, p: []byte{'d'}})
		d("D1e", c08stFrm{typ: 0, flags: fEndStream, sid: sid, p: []byte{'d'}})
		pad := append([]byte{255, 'd'}, make([]byte, 255)...)
		d("Dpad", c08stFrm{typ: 0, flags: fPadded, sid: sid, p: pad})
		mb := c08stFrm{typ: 0, sid: sid, big: 1000000}
		d("D1000000", mb)
		d("B4x1000000", mb, mb, mb, mb)
		if vreport.Thorough() {
			d("Dmax", c08stFrm{typ: 0, sid: sid, big: c08stMaxPayload})
			var b []c08stFrm
			for i := 0; i < 255; i++ {
				b = append(b, c08stFrm{typ: 0, sid: sid, big: 16384})
			}
			b = append(b, c08stFrm{typ: 0, sid: sid, big: 12288})
			d("B255x16384+12288", b...)
			d("D4097", c08stFrm{typ: 0, sid: sid, big: 4097})
		}
		// WINDOW_UPDATE
		for _, inc := range []struct {
			n string
			v uint32
		}{{"WU0", 0}, {"WU1", 1}, {"WUmax", 1<<31 - 1}} {
			what := "WINDOW_UPDATE increment " + strconv.FormatUint(uint64(inc.v), 10)
			add(inc.n, what, c08stFrm{typ: 8, sid: sid, p: c08stU32(inc.v)}).isWU = true
		}
		add("RST", "RST_STREAM", c08stFrm{typ: 3, sid: sid, p: c08stU32(8)})
		add("PRIO", "PRIORITY depending on itself", c08stFrm{typ: 2, sid: sid, p: append(c08stU32(sid), 16)})
		add("PP", "PUSH_PROMISE", c08stFrm{typ: 5, flags: fEndHeaders, sid: sid, p: append(c08stU32(2), c08stBlkGET...)})
	}
	addc := func(name, class string, frames ...c08stFrm) *c08stEv {
		evs = append(evs, c08stEv{name: name, class: class, conn: true, frames: frames})
		return &evs[len(evs)-1]
	}
	set := func(id uint16, v uint32) []byte { return append([]byte{byte(id >> 8), byte(id)}, c08stU32(v)...) }
	addc("SET", "empty SETTINGS", c08stFrm{typ: 4})
	addc("SETiws0", "SETTINGS INITIAL_WINDOW_SIZE=0", c08stFrm{typ: 4, p: set(4, 0)}).isIWS = true
	addc("SETiwsMax", "SETTINGS INITIAL_WINDOW_SIZE=2^31-1", c08stFrm{typ: 4, p: set(4, 1<<31-1)}).isIWS = true
	addc("SETiws2^31", "SETTINGS INITIAL_WINDOW_SIZE=2^31", c08stFrm{typ: 4, p: set(4, 1<<31)}).isIWS = true
	addc("SETmfs0", "SETTINGS MAX_FRAME_SIZE=0", c08stFrm{typ: 4, p: set(5, 0)})
	addc("SETmfs2^24", "SETTINGS MAX_FRAME_SIZE=2^24", c08stFrm{typ: 4, p: set(5, 1<<24)})
	addc("SETack", "SETTINGS ACK", c08stFrm{typ: 4, flags: 1})
	addc("PING", "PING", c08stFrm{typ: 6, p: make([]byte, 8)})
	addc("PINGack", "PING ACK", c08stFrm{typ: 6, flags: 1, p: make([]byte, 8)})
	addc("GOAWAY", "GOAWAY NO_ERROR", c08stFrm{typ: 7, p: append(c08stU32(0), c08stU32(0)...)})
	addc("GOAWAYerr", "GOAWAY with an error code", c08stFrm{typ: 7, p: append(c08stU32(1<<31-1), c08stU32(2)...)})
	addc("UNK", "frame of unknown type", c08stFrm{typ: 0x20, p: []byte("opaque")})
	if role == "client" {
		evs = append(evs, c08stEv{name: "REQ", class: "(MOSN sends a further request)", conn: true, local: "REQ"})
	} else {
		evs = append(evs, c08stEv{name: "RESP(1)", class: "(MOSN answers the stream)", sid: 1, local: "RESP"})
		evs = append(evs, c08stEv{name: "RESP(3)", class: "(MOSN answers the stream)", sid: 3, local: "RESP"})
		evs = append(evs, c08stEv{name: "RESET(1)", class: "(MOSN resets the stream)", sid: 1, local: "RESET"})
		evs = append(evs, c08stEv{name: "SHUTDOWN", class: "(MOSN starts a graceful shutdown)", conn: true, local: "SHUTDOWN"})
	}
	return evs
}

var c08stAlphaCache = map[string][]c08stEv{}
var c08stAlphaIdx = map[string]map[string]int{}

func c08stAlpha(role string) []c08stEv {
	if a, ok := c08stAlphaCache[role]; ok {
		return a
	}
	a := c08stAlphabet(role)
	idx := map[string]int{}
	for i, e := range a {
		idx[e.name] = i
	}
	c08stAlphaCache[role], c08stAlphaIdx[role] = a, idx
	return a
}

// ---------------------------------------------------------------- the world: one real connection object

type c08stConn struct {
	api.Connection
	nwrites int
	types   []byte // frame type of every buffer written (first frame of the buffer), kept short
}

func (c *c08stConn) Write(bufs ...buffer.IoBuffer) error {
	for _, b := range bufs {
		c.nwrites++
		if bb := b.Bytes(); len(bb) >= 9 && len(c.types) < 16 {
			c.types = append(c.types, bb[3])
		}
	}
	return nil
}

func (c *c08stConn) State() api.ConnState { return api.ConnActive }

type c08stWorld struct {
	role    string
	conn    *c08stConn
	cc      *MClientConn
	sc      *MServerConn
	ms      map[uint32]*MStream
	pending []byte
}

var (
	c08stReqGET  = c08stMustReq("GET")
	c08stReqHEAD = c08stMustReq("HEAD")
	c08stCtx     = context.Background()
)

func c08stMustReq(method string) *http.Request {
	r, err := http.NewRequest(method, "http://upstream.test/blob", nil)
	if err != nil {
		panic(err)
	}
	return r
}

var c08stWorlds = [][2]string{{"client", "GET"}, {"client", "HEAD"}, {"server", "streams"}, {"server", "fresh"}}

// c08stNewWorld builds a fresh connection object in its start state; herr != "" is a problem of the harness.
func c08stNewWorld(role, world string) (w *c08stWorld, herr string) {
	w = &c08stWorld{role: role, conn: &c08stConn{}}
	if role == "client" {
		cc := NewClientConn(w.conn)
		w.cc = cc
		cc.WriteInitFrame()
		req := c08stReqGET
		if world == "HEAD" {
			req = c08stReqHEAD
		}
		cs, err := cc.WriteHeaders(c08stCtx, req, "", true)
		if err != nil || cs.ID != 1 {
			return nil, fmt.Sprintf("client world: request 1 not sent: %v", err)
		}
		cs3, err := cc.WriteHeaders(c08stCtx, c08stReqGET, "", true)
		if err != nil || cs3.ID != 3 {
			return nil, fmt.Sprintf("client world: request 3 not sent: %v", err)
		}
		m3 := &MClientStream{clientStream: cs3, conn: cc, Request: c08stReqGET}
		m3.Reset()
		if cc.streams[3] != nil || cc.streams[1] == nil || cc.nextStreamID != 5 {
			return nil, "client world: unexpected start state " + c08stClientState(w)
		}
		return w, ""
	}
	sc := NewServerConn(w.conn)
	w.sc = sc
	w.ms = map[uint32]*MStream{}
	if err := sc.Init(); err != nil {
		return nil, "server world: Init: " + err.Error()
	}
	if world == "streams" {
		for _, n := range []string{"Hreq(1)", "HreqE(3)", "Hreq(5)", "RST(5)"} {
			ev := &c08stAlpha("server")[c08stAlphaIdx["server"][n]]
			r := w.apply(ev, nil)
			if r.key != "" || r.term {
				return nil, fmt.Sprintf("server world: setup event %s: %s %s %s", n, r.out, r.key, r.detail)
			}
		}
		st1, st3 := sc.streams[1], sc.streams[3]
		if st1 == nil || st1.state != stateOpen || st3 == nil || st3.state != stateHalfClosedRemote || sc.streams[5] != nil || sc.maxClientStreamID != 5 {
			return nil, "server world: unexpected start state " + c08stServerState(w)
		}
	}
	return w, ""
}

func c08stFramerState(sb *strings.Builder, fr *Framer, pending []byte) {
	expect := false
	lt, ls := -1, uint32(0)
	if fr.lastFrame != nil {
		h := fr.lastFrame.Header()
		lt, ls = int(h.Type), h.StreamID
		if hc, ok := fr.lastFrame.(headersOrContinuation); ok && !hc.HeadersEnded() {
			expect = true
		}
	}
	if !expect {
		lt, ls = -1, 0 // checkFrameOrder looks at the last frame only while a header block is open
	}
	fmt.Fprintf(sb, " | framer expectCont=%v last=%d/%d lastHeaderStream=%d maxRead=%d", expect, lt, ls, fr.lastHeaderStream, fr.maxReadSize)
	if len(pending) > 0 {
		n := len(pending)
		if n > 48 {
			n = 48
		}
		fmt.Fprintf(sb, " pending=%d:%x", len(pending), pending[:n])
	}
}

func c08stClientState(w *c08stWorld) string {
	cc := w.cc
	var sb strings.Builder
	fmt.Fprintf(&sb, "flow=%d inflow=%d wantAck=%v next=%d maxFrame=%d maxStreams=%d maxHdrList=%d iws=%d pings=%d closed=%v closing=%v goaway=%v",
		cc.flow.n, cc.inflow.n, cc.wantSettingsAck, cc.nextStreamID, cc.maxFrameSize, cc.maxConcurrentStreams, cc.peerMaxHeaderListSize,
		cc.initialWindowSize, len(cc.pings), cc.closed, cc.closing, cc.goAway != nil)
	ids := make([]int, 0, len(cc.streams))
	for id := range cc.streams {
		ids = append(ids, int(id))
	}
	sort.Ints(ids)
	for _, id := range ids {
		cs := cc.streams[uint32(id)]
		fmt.Fprintf(&sb, " | %d:{flow=%d inflow=%d first=%v hdrs=%v trl=%v reset=%v %s}", id, cs.flow.n, cs.inflow.n, cs.firstByte, cs.pastHeaders,
			cs.pastTrailers, cs.didReset, cs.req.Method)
	}
	c08stFramerState(&sb, &cc.Framer.Framer, w.pending)
	return sb.String()
}

func c08stServerState(w *c08stWorld) string {
	sc := w.sc
	var sb strings.Builder
	fmt.Fprintf(&sb, "flow=%d inflow=%d unacked=%d clientMax=%d advMax=%d cur=%d pushed=%d maxClient=%d maxPush=%d iws=%d maxFrame=%d hdrTable=%d maxHdrList=%d push=%v goaway=%v/%d",
		sc.flow.n, sc.inflow.n, sc.unackedSettings, sc.clientMaxStreams, sc.advMaxStreams, sc.curClientStreams, sc.curPushedStreams, sc.maxClientStreamID,
		sc.maxPushPromiseID, sc.initialStreamSendWindowSize, sc.maxFrameSize, sc.headerTableSize, sc.peerMaxHeaderListSize, sc.pushEnabled, sc.inGoAway, sc.goAwayCode)
	ids := make([]int, 0, len(sc.streams))
	for id := range sc.streams {
		ids = append(ids, int(id))
	}
	sort.Ints(ids)
	for _, id := range ids {
		st := sc.streams[uint32(id)]
		fmt.Fprintf(&sb, " | %d:{%v flow=%d inflow=%d body=%d/%d rstq=%v trl=%v t=%v/%v answerable=%v}", id, st.state, st.flow.n, st.inflow.n, st.bodyBytes, st.declBodyBytes,
			st.resetQueued, st.gotTrailerHeader, st.trailer != nil, st.reqTrailer != nil, w.ms[uint32(id)] != nil)
	}
	c08stFramerState(&sb, &sc.Framer.Framer, w.pending)
	return sb.String()
}

func (w *c08stWorld) state() string {
	if w.role == "client" {
		return c08stClientState(w)
	}
	return c08stServerState(w)
}

// streamWords names the lifecycle state of a stream as the connection object sees it, for labels and keys.
func (w *c08stWorld) streamWords(sid uint32) string {
	if sid == 0 {
		return "stream 0"
	}
	if w.role == "client" {
		if cs := w.cc.streams[sid]; cs != nil {
			m := ""
			if cs.req.Method == "HEAD" {
				m = " of a HEAD request"
			}
			switch {
			case cs.pastTrailers:
				return "an open stream" + m + " (trailers seen)"
			case cs.pastHeaders:
				return "an open stream" + m + " (response headers seen)"
			}
			return "an open stream" + m + " (no response headers yet)"
		}
		if sid%2 == 0 {
			return "a stream that was never opened (even id)"
		}
		if sid < w.cc.nextStreamID {
			return "a closed stream"
		}
		return "an idle stream"
	}
	if st := w.sc.streams[sid]; st != nil {
		s := "an open stream"
		if st.state == stateHalfClosedRemote {
			s = "a half-closed (remote) stream"
		} else if st.state != stateOpen {
			s = "a stream in state " + st.state.String()
		}
		if st.gotTrailerHeader {
			s += " (trailers seen)"
		}
		return s
	}
	if sid%2 == 0 {
		return "an idle stream (even id)"
	}
	if sid <= w.sc.maxClientStreamID {
		return "a closed stream"
	}
	return "an idle stream"
}

// recvWindow: what the connection object still allows the peer to send on the stream (-1: no such stream).
func (w *c08stWorld) recvWindow(sid uint32) int64 {
	if w.role == "client" {
		if cs := w.cc.streams[sid]; cs != nil {
			return int64(cs.inflow.available())
		}
		return -1
	}
	if st := w.sc.streams[sid]; st != nil {
		return int64(st.inflow.available())
	}
	return -1
}

func (w *c08stWorld) label(ev *c08stEv, fi int) string {
	cl := ev.class
	if ev.data && fi < len(ev.frames) {
		if win := w.recvWindow(ev.sid); win >= 0 && int64(ev.frames[fi].plen()) > win {
			cl = "DATA beyond the advertised stream window"
		}
	}
	l := cl
	if !ev.conn {
		l += " on " + w.streamWords(ev.sid)
	}
	if ev.local == "REQ" {
		// what the peer's SETTINGS made of the parameters a request is written with
		cc := w.cc
		if cc.maxFrameSize != 16<<10 {
			l += fmt.Sprintf(" with the peer's MAX_FRAME_SIZE=%d", cc.maxFrameSize)
		}
	}
	if w.role == "server" && w.sc.inGoAway {
		l += " after GOAWAY"
	}
	return l
}

type c08stRes struct {
	out    string // outcome class of the last frame handled
	term   bool   // the connection is over (connection-level error, panic): no further events
	key    string // violation
	detail string
	errs   bool // some frame of the event ended in an error of any kind
}

func (w *c08stWorld) mutexesFree() string {
	try := func(m *gosync.Mutex) bool {
		if m.TryLock() {
			m.Unlock()
			return true
		}
		return false
	}
	if w.role == "client" {
		switch {
		case !try(&w.cc.mu):
			return "MClientConn.mu"
		case !try(&w.cc.wmu):
			return "MClientConn.wmu"
		case !try(&w.cc.hmu):
			return "MClientConn.hmu"
		}
		return ""
	}
	if !try(&w.sc.mu) {
		return "MServerConn.mu"
	}
	return ""
}

type c08stWin struct {
	conn    int32
	streams map[uint32]int32
}

func (w *c08stWorld) sendWindows() c08stWin {
	x := c08stWin{streams: map[uint32]int32{}}
	if w.role == "client" {
		x.conn = w.cc.flow.n
		for id, cs := range w.cc.streams {
			x.streams[id] = cs.flow.n
		}
		return x
	}
	x.conn = w.sc.flow.n
	for id, st := range w.sc.streams {
		x.streams[id] = st.flow.n
	}
	return x
}

func (w *c08stWorld) iws() int64 {
	if w.role == "client" {
		return int64(w.cc.initialWindowSize)
	}
	return int64(w.sc.initialStreamSendWindowSize)
}

func c08stErrOut(prefix string, err error) (string, bool) {
	switch e := err.(type) {
	case StreamError:
		return prefix + "stream-error:" + e.Code.String(), false
	case ConnectionError:
		return prefix + "conn-error:" + ErrCode(e).String(), true
	case goAwayFlowError:
		return prefix + "conn-error:goAwayFlowError", true
	}
	s := err.Error()
	if len(s) > 48 {
		s = s[:48]
	}
	return prefix + "error:" + s, true
}

type c08stPanic struct {
	v    interface{}
	site c08.PanicSite
}

func (w *c08stWorld) readFrame(buf buffer.IoBuffer) (f Frame, err error, pn *c08stPanic) {
	defer func() {
		if r := recover(); r != nil {
			pn = &c08stPanic{v: r, site: c08.Where()}
		}
	}()
	fr := w.framer()
	f, _, err = fr.ReadFrame(c08stCtx, buf, 0)
	return
}

func (w *c08stWorld) framer() *MFramer {
	if w.role == "client" {
		return w.cc.Framer
	}
	return w.sc.Framer
}

func (w *c08stWorld) handleFrame(f Frame) (err error, pn *c08stPanic) {
	defer func() {
		if r := recover(); r != nil {
			pn = &c08stPanic{v: r, site: c08.Where()}
		}
	}()
	if w.role == "client" {
		_, _, _, _, _, err = w.cc.HandleFrame(c08stCtx, f)
		return
	}
	var ms *MStream
	ms, _, _, _, err = w.sc.HandleFrame(c08stCtx, f)
	if ms != nil {
		w.ms[ms.ID()] = ms
	}
	return
}

func (w *c08stWorld) doLocal(ev *c08stEv) (err error, pn *c08stPanic) {
	defer func() {
		if r := recover(); r != nil {
			pn = &c08stPanic{v: r, site: c08.Where()}
		}
	}()
	switch ev.local {
	case "REQ":
		_, err = w.cc.WriteHeaders(c08stCtx, c08stReqGET, "", true)
	case "RESP":
		if ms := w.ms[ev.sid]; ms != nil && w.sc.streams[ev.sid] != nil {
			ms.Response = &http.Response{StatusCode: 200, Header: http.Header{"Date": []string{"x"}}}
			err = ms.SendResponse()
			delete(w.ms, ev.sid)
		}
	case "RESET":
		if ms := w.ms[ev.sid]; ms != nil && w.sc.streams[ev.sid] != nil {
			ms.Reset()
			delete(w.ms, ev.sid)
		}
	case "SHUTDOWN":
		w.sc.GracefulShutdown()
	}
	return
}

func c08stKey(role, label, what string) string {
	return "h2state/" + role + " " + label + ": " + what
}

// apply runs one event on the world. before (may be nil) is called before every frame of the event with the
// frame's label: the child records there what is about to run, so that a death can be attributed.
func (w *c08stWorld) apply(ev *c08stEv, before func(label string, frame int)) (res c08stRes) {
	curFrame := 0
	fail := func(label, what, detail string) c08stRes {
		if len(ev.frames) > 1 {
			detail = fmt.Sprintf("frame %d of %d of the last event: %s", curFrame+1, len(ev.frames), detail)
		}
		res.key, res.detail, res.term = c08stKey(w.role, label, what), detail, true
		return res
	}
	if ev.local != "" {
		label := w.label(ev, 0)
		if before != nil {
			before(label, 0)
		}
		err, pn := w.doLocal(ev)
		if pn != nil {
			return fail(label, "panic@"+pn.site.Site, fmt.Sprintf("panic %v; stack: %s", pn.v, pn.site.Stack))
		}
		if m := w.mutexesFree(); m != "" {
			return fail(label, "leaves "+m+" locked", "the mutex is still held after the call returned")
		}
		res.out = "local ok"
		if err != nil {
			res.out, _ = c08stErrOut("local ", err)
			res.errs = true
		}
		return res
	}
	for fi, fr := range ev.frames {
		curFrame = fi
		label := w.label(ev, fi)
		if before != nil {
			before(label, fi)
		}
		var buf buffer.IoBuffer
		hdr := fr.header()
		n := fr.plen()
		if len(w.pending) == 0 && fr.big > 0 {
			copy(c08stBig[:9], hdr[:])
			buf = buffer.NewIoBufferBytes(c08stBig[:9+n])
		} else {
			// unread bytes of the connection buffer (always few: a HEADERS frame waiting for its CONTINUATION) + this
			// frame, in the scratch buffer of the process
			b := append(append(c08stScratch[:0], w.pending...), hdr[:]...)
			if fr.big > 0 {
				b = append(b, c08stBig[9:9+n]...)
			} else {
				b = append(b, fr.p...)
			}
			c08stScratch = b[:0]
			buf = buffer.NewIoBufferBytes(b)
		}
		for buf.Len() > 0 {
			beforeLen := buf.Len()
			f, err, pn := w.readFrame(buf)
			if pn != nil {
				return fail(label, "panic@"+pn.site.Site, fmt.Sprintf("MFramer.ReadFrame panics: %v; stack: %s", pn.v, pn.site.Stack))
			}
			if err == ErrAGAIN {
				res.out = "need-more"
				break
			}
			if err != nil {
				// the codec hands the error to the stream connection, which closes the connection (a StreamError
				// of the framer leaves the frame in the read buffer: nothing behind it is ever handled)
				res.out, _ = c08stErrOut("framer ", err)
				res.term, res.errs = true, true
				break
			}
			if buf.Len() == beforeLen {
				return fail(label, "MFramer.ReadFrame hands out a frame without consuming it (Dispatch would spin)", fmt.Sprintf("frame %v", f.Header()))
			}
			wu, iws := ev.isWU, ev.isIWS
			var win0 c08stWin
			var iws0 int64
			if wu || iws {
				win0, iws0 = w.sendWindows(), w.iws()
			}
			herr, pn := w.handleFrame(f)
			if pn != nil {
				return fail(label, "panic@"+pn.site.Site, fmt.Sprintf("HandleFrame panics: %v; stack: %s", pn.v, pn.site.Stack))
			}
			if m := w.mutexesFree(); m != "" {
				return fail(label, "leaves "+m+" locked", fmt.Sprintf("HandleFrame returned %v and the mutex is still held", herr))
			}
			if herr == nil {
				res.out = "ok"
				if wu || iws {
					win1 := w.sendWindows()
					if wu {
						if ev.sid == 0 {
							if win1.conn < win0.conn {
								return fail(label, "accepted, and the connection send window wrapped around", fmt.Sprintf("window %d -> %d", win0.conn, win1.conn))
							}
						} else if o, ok := win0.streams[ev.sid]; ok {
							if nw, ok := win1.streams[ev.sid]; ok && nw < o {
								return fail(label, "accepted, and the stream send window wrapped around", fmt.Sprintf("window %d -> %d", o, nw))
							}
						}
					} else {
						d := w.iws() - iws0
						for id, o := range win0.streams {
							if nw, ok := win1.streams[id]; ok && ((d > 0 && nw < o) || (d < 0 && nw > o) || (d == 0 && nw != o)) {
								return fail(label, "accepted, and a stream send window moved against the change (wrapped around)", fmt.Sprintf("stream %d: initial window %d -> %d, stream window %d -> %d", id, iws0, w.iws(), o, nw))
							}
						}
					}
				}
				continue
			}
			res.errs = true
			res.out, res.term = c08stErrOut("", herr)
			if res.term {
				break
			}
		}
		if res.term {
			w.pending = nil
			return res
		}
		if buf.Len() > 0 {
			w.pending = append([]byte(nil), buf.Bytes()...)
		} else {
			w.pending = nil
		}
	}
	return res
}

// c08stProbe: a valid exchange on two fresh connection objects (oracle O7).
func c08stProbe() (bad string) {
	defer func() {
		if r := recover(); r != nil {
			bad = fmt.Sprintf("panic %v at %s", r, c08.Where().Site)
		}
	}()
	sw, herr := c08stNewWorld("server", "fresh")
	if herr != "" {
		return herr
	}
	buf := buffer.NewIoBufferBytes(append(append([]byte{0, 0, byte(len(c08stBlkGET)), 1, 0x5, 0, 0, 0, 1}, c08stBlkGET...)))
	f, _, err := sw.sc.Framer.ReadFrame(c08stCtx, buf, 0)
	if err != nil {
		return "server: ReadFrame of a valid request: " + err.Error()
	}
	ms, _, _, end, err := sw.sc.HandleFrame(c08stCtx, f)
	if err != nil || ms == nil || !end || ms.Request == nil || ms.Request.Method != "GET" {
		return fmt.Sprintf("server: a valid GET request is not handed up: ms=%v end=%v err=%v", ms != nil, end, err)
	}
	n0 := sw.conn.nwrites
	ms.Response = &http.Response{StatusCode: 200, Header: http.Header{"Date": []string{"x"}}}
	if err := ms.SendResponse(); err != nil || sw.conn.nwrites != n0+1 {
		return fmt.Sprintf("server: the response is not written: err=%v writes=%d", err, sw.conn.nwrites-n0)
	}
	cw, herr := c08stNewWorld("client", "GET")
	if herr != "" {
		return herr
	}
	buf = buffer.NewIoBufferBytes([]byte{0, 0, 1, 1, 0x4, 0, 0, 0, 1, 0x88, 0, 0, 1, 0, 0x1, 0, 0, 0, 1, 'd'})
	f, _, err = cw.cc.Framer.ReadFrame(c08stCtx, buf, 0)
	if err != nil {
		return "client: ReadFrame of a valid response: " + err.Error()
	}
	rsp, _, _, _, _, err := cw.cc.HandleFrame(c08stCtx, f)
	if err != nil || rsp == nil || rsp.StatusCode != 200 {
		return fmt.Sprintf("client: a valid response is not handed up: rsp=%v err=%v", rsp != nil, err)
	}
	f, _, err = cw.cc.Framer.ReadFrame(c08stCtx, buf, 0)
	if err != nil {
		return "client: ReadFrame of a valid DATA frame: " + err.Error()
	}
	_, data, _, end, _, err := cw.cc.HandleFrame(c08stCtx, f)
	if err != nil || len(data) != 1 || !end {
		return fmt.Sprintf("client: a valid DATA frame is not handed up: len=%d end=%v err=%v", len(data), end, err)
	}
	return ""
}

// ---------------------------------------------------------------- child: the exploration

type c08stRec struct {
	T      string    `json:"t"`
	Case   c08stCase `json:"case"`
	Label  string    `json:"label,omitempty"`
	Frame  int       `json:"frame"`
	Key    string    `json:"key,omitempty"`
	Detail string    `json:"detail,omitempty"`
	// end record
	Transitions int      `json:"transitions,omitempty"`
	States      int      `json:"states,omitempty"`
	Terminal    int      `json:"terminal,omitempty"`
	Skipped     int      `json:"skipped,omitempty"`
	Probes      int      `json:"probes,omitempty"`
	Depth       int      `json:"depth,omitempty"`
	Alphabet    int      `json:"alphabet,omitempty"`
	PerLevel    []int    `json:"per_level,omitempty"`
	Outcomes    []string `json:"outcomes,omitempty"`
	Labels      int      `json:"labels,omitempty"`
	Complete    bool     `json:"complete,omitempty"`
	Samples     []c08stCase `json:"samples,omitempty"`
	// wedge record
	State string `json:"state,omitempty"`
	Stack string `json:"stack,omitempty"`
}

type c08stChildIO struct {
	out      *os.File
	prog     *os.File
	progLen  int
	progress uint64 // atomic: bumped before every frame
}

func (cio *c08stChildIO) write(r c08stRec) {
	b, _ := json.Marshal(r)
	cio.out.Write(append(b, '\n'))
}

func (cio *c08stChildIO) at(c c08stCase, label string, frame int) {
	r := c08stRec{T: "at", Case: c, Label: label, Frame: frame}
	b, _ := json.Marshal(r)
	n := len(b)
	for len(b) < cio.progLen {
		b = append(b, ' ') // blank out the tail of a longer earlier record
	}
	cio.progLen = n
	cio.prog.WriteAt(b, 0)
	atomic.AddUint64(&cio.progress, 1)
}

func c08stNames(role string, hist []uint16) []string {
	a := c08stAlpha(role)
	out := make([]string, len(hist))
	for i, e := range hist {
		out[i] = a[e].name
	}
	return out
}

// c08stDepth: the upstream side (MClientConn) ignores most frames it cannot place, so its state space stays small and
// is explored one event deeper than the downstream side, where most violations end the connection at once.
func c08stDepth(role string) int {
	if role == "client" {
		return vreport.Pick(4, 5)
	}
	return vreport.Pick(3, 4)
}

type c08stSkip struct{}

func c08stExplore(cio *c08stChildIO, role, world string, depth int, skip map[string]bool, deadline time.Time) {
	a := c08stAlpha(role)
	end := c08stRec{T: "end", Case: c08stCase{Role: role, World: world}, Depth: depth, Alphabet: len(a), Complete: true}
	w0, herr := c08stNewWorld(role, world)
	if herr != "" {
		cio.write(c08stRec{T: "herr", Detail: herr})
		return
	}
	seen := map[string]bool{w0.state(): true}
	outcomes := map[string]bool{}
	labels := map[string]bool{}
	frontier := [][]uint16{nil}
	viol := func(c c08stCase, key, detail string) {
		cio.write(c08stRec{T: "viol", Case: c, Key: key, Detail: detail})
	}
	probe := func(c c08stCase, label string) {
		end.Probes++
		if bad := c08stProbe(); bad != "" {
			viol(c, c08stKey(role, label, "a valid exchange on another connection fails afterwards"), bad)
		}
	}
	for level := 1; level <= depth && len(frontier) > 0; level++ {
		var next [][]uint16
		for _, hist := range frontier {
			for e := range a {
				if end.Transitions&1023 == 0 && time.Now().After(deadline) {
					end.Complete = false
					goto done
				}
				h := append(append(make([]uint16, 0, len(hist)+1), hist...), uint16(e))
				names := c08stNames(role, h)
				c := c08stCase{Role: role, World: world, Events: names}
				var lastLabel string
				res, w, skipped, herr := c08stRunSeqL(cio, role, world, names, skip, func(l string) { lastLabel = l })
				if herr != "" {
					cio.write(c08stRec{T: "herr", Detail: herr})
					return
				}
				end.Transitions++
				if skipped {
					end.Skipped++
					continue
				}
				labels[lastLabel] = true
				if res.key != "" {
					viol(c, res.key, fmt.Sprintf("%s / %s world, events %v: %s", role, world, names, res.detail))
					outcomes["violation"] = true
					probe(c, lastLabel)
					continue
				}
				oc := lastLabel + " -> " + res.out
				if !outcomes[oc] || end.Transitions&255 == 0 {
					probe(c, lastLabel)
				}
				outcomes[oc] = true
				if len(end.Samples) < 3 && res.errs && level == depth {
					end.Samples = append(end.Samples, c)
				}
				if res.term {
					end.Terminal++
					continue
				}
				s := w.state()
				if !seen[s] {
					seen[s] = true
					next = append(next, h)
				}
			}
		}
		end.PerLevel = append(end.PerLevel, len(next))
		frontier = next
	}
done:
	end.States = len(seen)
	end.Labels = len(labels)
	for o := range outcomes {
		end.Outcomes = append(end.Outcomes, o)
	}
	sort.Strings(end.Outcomes)
	cio.write(end)
}

// c08stRunSeqL is c08stRunSeq that also tells the label of the last frame that ran.
func c08stRunSeqL(cio *c08stChildIO, role, world string, names []string, skip map[string]bool, onLabel func(string)) (res c08stRes, w *c08stWorld, skipped bool, herr string) {
	w, herr = c08stNewWorld(role, world)
	if herr != "" {
		return
	}
	a, idx := c08stAlpha(role), c08stAlphaIdx[role]
	c := c08stCase{Role: role, World: world, Events: names}
	for i, n := range names {
		j, ok := idx[n]
		if !ok {
			herr = "unknown event " + n
			return
		}
		ev := &a[j]
		if i < len(names)-1 {
			res = w.apply(ev, nil)
			if res.key != "" || res.term {
				return // (only in replays of a recorded case whose prefix already fails)
			}
			continue
		}
		base := ev.name
		if k := strings.IndexByte(base, '('); k >= 0 {
			base = base[:k]
		}
		hook := func(label string, frame int) {
			if skip[label+"|"+base] {
				panic(c08stSkip{})
			}
			if onLabel != nil {
				onLabel(label)
			}
			cio.at(c, label, frame)
		}
		func() {
			defer func() {
				if r := recover(); r != nil {
					if _, ok := r.(c08stSkip); ok {
						skipped = true
						return
					}
					panic(r)
				}
			}()
			res = w.apply(ev, hook)
		}()
	}
	return
}

func c08stProcCPU() time.Duration {
	var ru syscall.Rusage
	if syscall.Getrusage(syscall.RUSAGE_SELF, &ru) != nil {
		return 0
	}
	return time.Duration(ru.Utime.Nano() + ru.Stime.Nano())
}

func c08stChild() {
	mlog.DefaultLogger.SetLogLevel(plog.FATAL)
	golog.SetOutput(io.Discard) // ClientConn.logf prints through the standard logger
	out, err := os.OpenFile(os.Getenv("C08ST_OUT"), os.O_APPEND|os.O_CREATE|os.O_WRONLY, 0644)
	if err != nil {
		fmt.Println("c08st child:", err)
		os.Exit(4)
	}
	prog, err := os.OpenFile(os.Getenv("C08ST_PROGRESS"), os.O_CREATE|os.O_WRONLY, 0644)
	if err != nil {
		fmt.Println("c08st child:", err)
		os.Exit(4)
	}
	cio := &c08stChildIO{out: out, prog: prog}
	deadlineUnix, _ := strconv.ParseInt(os.Getenv("C08ST_DEADLINE"), 10, 64)
	skip := map[string]bool{}
	json.Unmarshal([]byte(os.Getenv("C08ST_SKIP")), &skip)
	var only *c08stCase
	if s := os.Getenv("C08ST_ONLY"); s != "" {
		only = &c08stCase{}
		if json.Unmarshal([]byte(s), only) != nil {
			fmt.Println("c08st child: bad C08ST_ONLY")
			os.Exit(4)
		}
	}
	// backstop behind the watchdog: the child can never take the machine down
	_ = syscall.Setrlimit(syscall.RLIMIT_AS, &syscall.Rlimit{Cur: 16 << 30, Max: 16 << 30})
	task := c08g.Go(func() {
		if only != nil {
			// the whole sequence under observation, event by event
			for n := 1; n <= len(only.Events); n++ {
				names := only.Events[:n]
				c := c08stCase{Role: only.Role, World: only.World, Events: names}
				var last string
				res, _, _, herr := c08stRunSeqL(cio, only.Role, only.World, names, nil, func(l string) { last = l })
				if herr != "" {
					cio.write(c08stRec{T: "herr", Detail: herr})
					return
				}
				if res.key != "" {
					cio.write(c08stRec{T: "viol", Case: c, Key: res.key, Detail: fmt.Sprintf("%s / %s world, events %v: %s", only.Role, only.World, names, res.detail)})
					break
				}
				if bad := c08stProbe(); bad != "" {
					cio.write(c08stRec{T: "viol", Case: c, Key: c08stKey(only.Role, last, "a valid exchange on another connection fails afterwards"), Detail: bad})
					break
				}
				if res.term {
					break
				}
			}
			cio.write(c08stRec{T: "end", Case: *only, Transitions: len(only.Events), Complete: true})
			return
		}
		wi, _ := strconv.Atoi(os.Getenv("C08ST_WORLD"))
		rw := c08stWorlds[wi]
		c08stExplore(cio, rw[0], rw[1], c08stDepth(rw[0]), skip, time.Unix(deadlineUnix, 0))
	})
	// O3: watch the exploring goroutine from outside
	last, cpu0 := atomic.LoadUint64(&cio.progress), c08stProcCPU()
	parkedTwice := 0
	haveMem, mem0 := false, uint64(0)
	for !task.Done() {
		time.Sleep(100 * time.Millisecond)
		cur := atomic.LoadUint64(&cio.progress)
		if cur != last {
			last, cpu0, parkedTwice, haveMem = cur, c08stProcCPU(), 0, false
			continue
		}
		snap := c08g.Take()
		g, ok := snap.Find(task.ID)
		if !ok || atomic.LoadUint64(&cio.progress) != last {
			continue
		}
		parked := false
		switch g.State {
		case "sync.Mutex.Lock", "sync.RWMutex.Lock", "sync.RWMutex.RLock", "sync.Cond.Wait", "chan receive", "chan send", "select", "semacquire",
			"sync.WaitGroup.Wait", "select (no cases)", "chan receive (nil chan)", "chan send (nil chan)":
			parked = g.Has("mosn.io/mosn/pkg/module/http2.(*M")
		}
		// parked: the innermost function of the connection code on the stack (where it blocks); running: the
		// outermost one (the entry point that never returns - where exactly a snapshot catches a loop is chance)
		stack := g.Stack()
		where := g.Top()
		for _, fn := range strings.Split(stack, " <- ") {
			if strings.Contains(fn, "mosn.io/mosn/pkg/module/http2.(*M") {
				where = strings.TrimPrefix(fn, "mosn.io/mosn/pkg/module/")
				if k := strings.LastIndexByte(where, '('); k > 0 {
					where = where[:k]
				}
				if parked {
					break
				}
			}
		}
		if parked {
			if parkedTwice++; parkedTwice >= 2 {
				cio.write(c08stRec{T: "wedge", State: "parked in " + g.State + ", " + where, Stack: stack})
				os.Exit(3)
			}
			continue
		}
		parkedTwice = 0
		// (no frame is being finished, so the exploration itself allocates nothing: what the heap grows by from
		// the first look on is allocated inside the one call that does not return)
		var mst runtime.MemStats
		runtime.ReadMemStats(&mst)
		if !haveMem {
			haveMem, mem0 = true, mst.HeapInuse
		} else if mst.HeapInuse > mem0+256<<20 {
			cio.write(c08stRec{T: "wedge", State: "running and allocating without bound, " + where, Stack: fmt.Sprintf("the heap in use grew from %d to %d MiB while no frame was finished; %s", mem0>>20, mst.HeapInuse>>20, stack)})
			os.Exit(3)
		}
		if c08stProcCPU()-cpu0 > 10*time.Second {
			cio.write(c08stRec{T: "wedge", State: "spinning, " + where, Stack: "10 s of process CPU burned without finishing the frame; " + stack})
			os.Exit(3)
		}
	}
	if task.Panic != nil {
		cio.write(c08stRec{T: "herr", Detail: fmt.Sprintf("harness panic: %v at %s", task.Panic, task.Where.Stack)})
	}
	out.Close()
}

// ---------------------------------------------------------------- parent

var c08stFatalRe = regexp.MustCompile(`(?m)^(fatal error: .*|panic: .*|runtime: .*out of memory.*|SIGSEGV.*|unexpected fault address.*)$`)

type c08stTotals struct {
	mu       gosync.Mutex
	states   int
	complete bool
	herr     []string
	bounds   []string
}

type c08stSpawnRes struct {
	recs   []c08stRec
	ended  bool
	wedge  *c08stRec
	at     *c08stRec
	log    string
	err    error
}

func c08stSpawn(t *testing.T, dir, tag string, env []string) c08stSpawnRes {
	outp := fmt.Sprintf("%s/out-%s.jsonl", dir, tag)
	progp := fmt.Sprintf("%s/progress-%s", dir, tag)
	cmd := exec.Command(os.Args[0], "-test.run", "^"+t.Name()+"$", "-test.timeout", "0", "-test.count", "1")
	cmd.Env = append(os.Environ(), "C08ST_CHILD=1", "C08ST_OUT="+outp, "C08ST_PROGRESS="+progp, "VERIF_OUT=", "VERIF_REPLAY=", "GOTRACEBACK=single")
	cmd.Env = append(cmd.Env, env...)
	var logb bytes.Buffer
	cmd.Stdout, cmd.Stderr = &logb, &logb
	var r c08stSpawnRes
	r.err = cmd.Run()
	r.log = logb.String()
	if f, err := os.Open(outp); err == nil {
		rd := bufio.NewReaderSize(f, 1<<20)
		for {
			line, err := rd.ReadBytes('\n')
			if len(line) > 1 {
				var rec c08stRec
				if json.Unmarshal(line, &rec) == nil {
					switch rec.T {
					case "end":
						r.ended = true
					case "wedge":
						rc := rec
						r.wedge = &rc
					}
					r.recs = append(r.recs, rec)
				}
			}
			if err != nil {
				break
			}
		}
		f.Close()
	}
	if b, err := os.ReadFile(progp); err == nil {
		var rec c08stRec
		if json.Unmarshal(bytes.TrimSpace(b), &rec) == nil && rec.T == "at" {
			r.at = &rec
		}
	}
	return r
}

func c08stTail(s string, n int) string {
	if len(s) > n {
		return s[:n] + "..."
	}
	return s
}

// c08stDeath turns the end of a child that did not finish into (key, detail); ok=false: not attributable.
func c08stDeath(r c08stSpawnRes) (key, detail string, ok bool) {
	if r.at == nil {
		return "", "", false
	}
	c := r.at.Case
	what := ""
	switch {
	case r.wedge != nil:
		what = "the call does not return (" + r.wedge.State + ")"
		detail = fmt.Sprintf("%s / %s world, events %v, frame %d of the last event: the goroutine handling the connection never comes back; %s", c.Role, c.World, c.Events, r.at.Frame+1, r.wedge.Stack)
	default:
		m := c08stFatalRe.FindString(r.log)
		if m == "" {
			m = fmt.Sprintf("process ended with %v", r.err)
		}
		if len(m) > 120 {
			m = m[:120]
		}
		what = "the whole process dies (" + m + ")"
		i := strings.Index(r.log, m)
		if i < 0 {
			i = 0
		}
		detail = fmt.Sprintf("%s / %s world, events %v, frame %d of the last event: the child process running the connection ended: %v; output: %s", c.Role, c.World, c.Events, r.at.Frame+1, r.err, c08stTail(r.log[i:], 900))
	}
	return c08stKey(c.Role, r.at.Label, what), detail, true
}

func c08stFold(p *vreport.Part, r c08stSpawnRes, tot *c08stTotals, final bool) {
	for _, rec := range r.recs {
		switch rec.T {
		case "viol":
			p.Violation(rec.Key, rec.Detail, rec.Case)
			p.Outcome(rec.Key)
		case "herr":
			tot.mu.Lock()
			tot.herr = append(tot.herr, rec.Detail)
			tot.mu.Unlock()
		case "end":
			if !final {
				continue
			}
			p.EvalN(rec.Transitions)
			p.AddTransitions(rec.Transitions)
			p.AddTraces(rec.Transitions)
			p.AddStates(rec.States)
			for _, o := range rec.Outcomes {
				p.Outcome(o)
				p.Distinct(rec.Case.Role + "/" + rec.Case.World + "|" + o)
			}
			for _, s := range rec.Samples {
				p.Sample(s)
			}
			tag := rec.Case.Role + "/" + rec.Case.World
			p.Note("states_"+tag, rec.States)
			p.Note("transitions_"+tag, rec.Transitions)
			p.Note("new_states_per_level_"+tag, rec.PerLevel)
			p.Note("closed_by_connection_error_"+tag, rec.Terminal)
			p.Note("probes_other_connection_"+tag, rec.Probes)
			p.Note("distinct_labels_"+tag, rec.Labels)
			if rec.Skipped > 0 {
				p.Note("skipped_after_a_process_death_"+tag, rec.Skipped)
				rec.Complete = false // (transitions of the class that killed an earlier child were not executed again)
			}
			p.Note("alphabet_"+rec.Case.Role, rec.Alphabet)
			tot.mu.Lock()
			if !rec.Complete {
				tot.complete = false
			}
			tot.mu.Unlock()
		}
	}
}

func TestVerifC08H2State(t *testing.T) {
	if os.Getenv("C08ST_CHILD") != "" {
		c08stChild()
		return
	}
	if os.Getenv("C08_CHILD") != "" {
		return
	}
	t.Parallel()
	dir := t.TempDir()
	tot := &c08stTotals{complete: true}
	if vreport.Replaying() {
		var rc c08stCase
		if !vreport.ReplayFor("C08", c08stPart, &rc) {
			return
		}
		p := vreport.Begin("C08", c08stPart, 5*time.Minute)
		p.Eval()
		b, _ := json.Marshal(rc)
		r := c08stSpawn(t, dir, "replay", []string{"C08ST_ONLY=" + string(b)})
		c08stFold(p, r, tot, false)
		if !r.ended {
			if key, detail, ok := c08stDeath(r); ok {
				p.Violation(key, detail, r.at.Case)
			} else {
				vreport.HarnessError("C08", c08stPart, "replay child ended without a record: "+c08stTail(r.log, 1500))
			}
		}
		for _, h := range tot.herr {
			vreport.HarnessError("C08", c08stPart, h)
		}
		p.End(true, "replay", "replay of one recorded sequence")
		return
	}
	budget := time.Duration(vreport.Pick(4, 25)) * time.Minute
	p := vreport.Begin("C08", c08stPart, budget)
	if f, err := strconv.ParseFloat(os.Getenv("VERIF_BUDGET_SCALE"), 64); err == nil && f > 0 {
		budget = time.Duration(float64(budget) * f)
	}
	deadline := time.Now().Add(budget)
	maxDeaths := vreport.Pick(3, 12)
	var wg gosync.WaitGroup
	for wi := range c08stWorlds {
		wi := wi
		wg.Add(1)
		go func() {
			defer wg.Done()
			skip := map[string]bool{}
			for n := 0; ; n++ {
				sb, _ := json.Marshal(skip)
				r := c08stSpawn(t, dir, fmt.Sprintf("w%d-%d", wi, n), []string{"C08ST_WORLD=" + strconv.Itoa(wi), "C08ST_SKIP=" + string(sb),
					"C08ST_DEADLINE=" + strconv.FormatInt(deadline.Unix(), 10)})
				if r.ended {
					c08stFold(p, r, tot, true)
					return
				}
				c08stFold(p, r, tot, false)
				key, detail, ok := c08stDeath(r)
				if !ok {
					tot.mu.Lock()
					tot.herr = append(tot.herr, fmt.Sprintf("child of world %v ended without a record (%v): %s", c08stWorlds[wi], r.err, c08stTail(r.log, 1500)))
					tot.complete = false
					tot.mu.Unlock()
					return
				}
				// attribute: the sequence alone, in a fresh process
				b, _ := json.Marshal(r.at.Case)
				r2 := c08stSpawn(t, dir, fmt.Sprintf("w%d-%d-only", wi, n), []string{"C08ST_ONLY=" + string(b)})
				key2, _, ok2 := c08stDeath(r2)
				if r2.ended || !ok2 || key2 != key {
					tot.mu.Lock()
					tot.herr = append(tot.herr, fmt.Sprintf("a child process ended (%s; %s) but the sequence %v alone in a fresh process does not end the same way (ended=%v key=%q)", key, c08stTail(detail, 600), r.at.Case.Events, r2.ended, key2))
					tot.complete = false
					tot.mu.Unlock()
					return
				}
				p.Violation(key, detail, r.at.Case)
				p.Outcome(key)
				p.Count("process_deaths", 1)
				last := r.at.Case.Events[len(r.at.Case.Events)-1]
				if k := strings.IndexByte(last, '('); k >= 0 {
					last = last[:k]
				}
				skip[r.at.Label+"|"+last] = true
				if n+1 >= maxDeaths {
					p.Note("stopped_after_process_deaths_"+c08stWorlds[wi][0]+"/"+c08stWorlds[wi][1], n+1)
					tot.mu.Lock()
					tot.complete = false
					tot.mu.Unlock()
					return
				}
			}
		}()
	}
	wg.Wait()
	for _, h := range tot.herr {
		vreport.HarnessError("C08", c08stPart, h)
	}
	p.End(tot.complete, fmt.Sprintf("roles x start worlds %v; breadth-first, every sequence of <= %d (client) / %d (server) events over the role's alphabet (client %d, server %d events: per stream id {0, open, closed, idle odd/even ...} HEADERS / trailers / HEADERS without END_HEADERS / CONTINUATION / DATA of 0, 1, 1+255 padding, 1,000,000 and 4 x 1,000,000 bytes (thorough: + 1 MiB, 255 x 16384 + 12288, 4097), with and without END_STREAM / WINDOW_UPDATE 0, 1, 2^31-1 / RST_STREAM / PRIORITY / PUSH_PROMISE; SETTINGS empty, INITIAL_WINDOW_SIZE 0, 2^31-1, 2^31, ACK; PING, GOAWAY, unknown type; local actions of MOSN), histories merged on the canonical connection state, closed connections not extended",
		c08stWorlds, c08stDepth("client"), c08stDepth("server"), len(c08stAlpha("client")), len(c08stAlpha("server"))),
		"each transition = the history replayed on a fresh real MClientConn / MServerConn (fake api.Connection that swallows writes) + one event, every frame through MFramer.ReadFrame -> HandleFrame as the stream connection's Dispatch does; in a child process per world; oracle O1-O7 of the file comment: process survives (a death is attributed to the frame being handled and confirmed by the sequence alone in a fresh process), no panic, the call returns (goroutine snapshots / CPU evidence), no mutex left locked, an accepted WINDOW_UPDATE / INITIAL_WINDOW_SIZE never wraps a send window, ReadFrame consumes what it hands out, a valid exchange on other connection objects still works; which error a sequence gets is not compared; evaluations = transitions executed, states = distinct canonical connection states, distinct = (world, label of the frame in its stream state -> outcome) classes")
}
