//go:build verif

package http2

// C18 (c), window ACCOUNTANT: "as a sender MOSN never puts more DATA on a stream
// or connection than the peer's advertised flow-control window allows, yet
// delivers the complete body as window updates arrive" — with peers that LOWER
// SETTINGS_INITIAL_WINDOW_SIZE while streams are open (RFC 7540 6.9.2: every
// open stream's window shrinks by the difference and may become negative; the
// sender must then wait until WINDOW_UPDATE / a raised SETTINGS make it positive).
//
// Seam and threads are those of the other flow parts (real MServerConn /
// MStream.SendResponse and MClientConn / MClientStream.RoundTrip over the
// recording fake connection, package instrumented with set "http2"); frames of
// the peer go through the real MFramer.ReadFrame + HandleFrame.
//
// The accountant (c18Acct) sees ONLY the bytes of the two directions of the wire
// (plus two harness facts, see below) and keeps, for MOSN as the sender, the
// windows the peer has advertised:
//
//	connection window = 65535 + connection-level WINDOW_UPDATE increments the peer has sent
//	                    - payload bytes (incl. pad length octet and padding) of all DATA frames MOSN has written
//	stream window     = initial window + stream-level increments the peer has sent - DATA payload bytes of the stream
//	initial window    = value of the last SETTINGS frame MOSN has ACKNOWLEDGED (65535 before the first).
//	                    A SETTINGS frame the peer has sent but MOSN has not acknowledged yet is "pending":
//	                    MOSN may or may not have applied it, the upper bound of the stream window
//	                    uses the largest of the acknowledged and the pending values.
//
// Increments and raised SETTINGS count from the moment the peer SENDS them (an
// upper bound of what the sender can know: the check is never too strong); a
// LOWERED initial window counts from the moment MOSN writes the SETTINGS ACK
// (RFC 7540 6.5.3: the ACK says the values have been applied; MOSN writes it
// while still holding the connection mutex).
//
// Safety, checked at the instant a DATA frame leaves (c18Conn.Write):
//   - payload <= connection window (exact: the connection window is never lowered);
//   - payload <= the largest value the stream window's upper bound has had since
//     the previous DATA frame of that stream (or since the stream's sender was
//     started / the last quiescence). Without a lowering SETTINGS this IS the
//     stream window. With one it grants exactly one frame of grace per stream:
//     MOSN's sender takes bytes from the window under the connection mutex and
//     writes the frame afterwards, so one frame taken under the old window may
//     legitimately leave after the ACK (the reference x/net Transport has the
//     same order; the statement is silent) — every later frame is held to the
//     lowered window. At quiescence (harness fact: every sender is parked in
//     awaitFlowControl or has returned, so nothing is in flight) the grace ends,
//     so in the history layer below the oracle is exact;
//   - payload <= the peer's SETTINGS_MAX_FRAME_SIZE; no DATA on a stream that is
//     not open or after END_STREAM.
//
// Liveness, checked at every quiescence (all peer frames of the round processed,
// nobody can run): a sender that has not returned although body is left, its
// stream window > 0 and the connection window > 0 is a lost wake-up; a sender
// that has returned must have returned nil, the concatenated DATA (padding
// stripped) must equal the body and END_STREAM must have been sent exactly
// once. Every non-terminal case ends with rounds that re-open the windows far
// beyond the bodies: there every sender must have finished.
//
// Overflow (RFC 7540 6.9.1): a WINDOW_UPDATE that would raise a window above
// 2^31-1 must terminate the stream or connection with FLOW_CONTROL_ERROR. At
// this seam that is: HandleFrame returns ConnectionError/StreamError with code
// FLOW_CONTROL_ERROR (pkg/stream/http2 closes the connection / resets the stream
// on it) or a GOAWAY / RST_STREAM with that code is written. Compared only where
// the window is exactly known (event delivered while every sender is quiescent)
// and the stream has not been ended by MOSN; an increment that reaches exactly
// 2^31-1 (also from a negative window) must be accepted. SETTINGS_INITIAL_WINDOW_SIZE
// > 2^31-1 must be a FLOW_CONTROL_ERROR (6.5.2). A SETTINGS raise that pushes an
// open stream's window above 2^31-1 (6.9.2) is enumerated but its answer is NOT
// compared: the reference transport ignores it exactly like MClientConn does.
// Which of two streams gets a scarce connection window is not compared.

import (
	"bytes"
	"context"
	"fmt"
	"net/http"
	"os"
	"strconv"
	"strings"
	"testing"
	"time"

	xhttp2 "golang.org/x/net/http2"
	xhpack "golang.org/x/net/http2/hpack"
	"mosn.io/mosn/pkg/verifrt/vreport"
	"mosn.io/mosn/pkg/verifrt/vrt"
	"mosn.io/pkg/buffer"
)

const c18AMax = int64(1<<31 - 1)

// c18AEv is one environment event.
type c18AEv struct {
	// "wu": WINDOW_UPDATE | "init": SETTINGS{INITIAL_WINDOW_SIZE=N} | "open": a further stream is opened and its sender started |
	// "rst": the peer sends RST_STREAM(CANCEL) on stream S | "resp": (MOSN as client) the peer answers stream S with HEADERS(:status 200)+END_STREAM |
	// "mreset": MOSN itself resets stream S (MStream.Reset / MClientStream.Reset: what the proxy does on a timeout or a downstream reset)
	K string `json:"k"`
	// wu: 0 = connection, i>0 = the i-th stream in order of opening IN WHATEVER STATE it is (open, finished, reset; i beyond the streams opened
	// so far: a stream that has never been opened, id 2i-1), -1 = stream 2 (an even id: never opened by anybody). rst/resp/mreset: i>0, opened.
	S int    `json:"s,omitempty"`
	N uint32 `json:"n,omitempty"`
}

func (e c18AEv) String() string {
	switch e.K {
	case "wu":
		if e.S == 0 {
			return fmt.Sprintf("wu(conn,%d)", e.N)
		}
		if e.S < 0 {
			return fmt.Sprintf("wu(even-id,%d)", e.N)
		}
		return fmt.Sprintf("wu(s%d,%d)", e.S, e.N)
	case "init":
		return fmt.Sprintf("init=%d", e.N)
	case "rst", "resp", "mreset":
		return fmt.Sprintf("%s(s%d)", e.K, e.S)
	}
	return e.K
}

type c18ACase struct {
	Layer    string     `json:"layer"`
	Side     string     `json:"side"`      // "server" | "client"
	Open     int        `json:"open"`      // streams open (HEADERS exchanged) before anything else; their senders start after Pre
	Bodies   []int      `json:"bodies"`    // body per stream in order of opening (streams beyond Open are opened by "open" events)
	Window   uint32     `json:"window"`    // the peer's first SETTINGS_INITIAL_WINDOW_SIZE
	MaxFrame uint32     `json:"max_frame"` // the peer's SETTINGS_MAX_FRAME_SIZE
	Pre      []c18AEv   `json:"pre,omitempty"`
	Rounds   [][]c18AEv `json:"rounds"` // round 0 runs concurrently with the start of the senders; quiescence between rounds
	Bound    int        `json:"bound"`
	Choices  []int      `json:"choices,omitempty"`
}

// ---------------------------------------------------------------------------
// the accountant

type c18AStream struct {
	id      uint32
	credit  int64 // stream-level increments the peer has sent - DATA payload bytes MOSN has written
	hw      int64 // largest upper bound of the stream window since the stream's last DATA frame / sender start / quiescence
	cum     int64
	data    []byte
	frames  int
	ends    int // END_STREAM flags MOSN has written on the stream
	started bool
	peerRST bool // the peer has sent RST_STREAM on the stream
	peerEnd bool // MOSN as client: the peer has sent HEADERS with END_STREAM (the response is complete)
	mosnRST bool // MOSN has written RST_STREAM on the stream
}

type c18Acct struct {
	mosnIsClient bool
	acked        int64   // INITIAL_WINDOW_SIZE of the last SETTINGS MOSN has acknowledged
	pending      []int64 // values of SETTINGS the peer has sent and MOSN has not acknowledged (-1: none in that frame)
	ackedMF      int64
	pendingMF    []int64
	conn         int64
	streams      []*c18AStream // in order of opening
	lowered      bool          // some SETTINGS so far lowered the initial window while a stream was open
	lastInit     int64
	bad          []string // key \x00 detail
	log          []string
	flowErrWire  bool // GOAWAY or RST_STREAM with FLOW_CONTROL_ERROR written by MOSN
	goAway       bool
	unsolicited  int // SETTINGS ACKs without a pending SETTINGS
	lateWU       bool // the peer has sent a WINDOW_UPDATE for a stream that is closed or has never been opened
}

// aborted: the stream has been reset by either side or (MOSN as client) answered completely by the peer before/while MOSN
// sends the body. MOSN has forgotten the stream; what its sender does from then on (return an error, stop sending) is not
// part of the statement. Only facts of the wire.
func (a *c18Acct) aborted(s *c18AStream) bool {
	return s.peerRST || s.mosnRST || (a.mosnIsClient && s.peerEnd)
}

// closed: aborted, or (MOSN as server; every request of this harness carries END_STREAM) MOSN has sent END_STREAM: RFC 7540
// 5.1 "closed". A WINDOW_UPDATE the peer sends for such a stream (6.9: legal for a while after END_STREAM; always racing with
// a reset) grants nothing to anybody: not to the stream (it sends no more), not to another stream, not to the connection.
func (a *c18Acct) closed(s *c18AStream) bool {
	return a.aborted(s) || (!a.mosnIsClient && s.ends > 0)
}

func newC18Acct(mosnIsClient bool) *c18Acct {
	return &c18Acct{mosnIsClient: mosnIsClient, acked: 65535, lastInit: 65535, ackedMF: 16384, conn: 65535}
}

func (a *c18Acct) violate(key, detail string) { a.bad = append(a.bad, key+"\x00"+detail) }

func (a *c18Acct) stream(id uint32) *c18AStream {
	for _, s := range a.streams {
		if s.id == id {
			return s
		}
	}
	return nil
}

func (a *c18Acct) upperInit() int64 {
	m := a.acked
	for _, v := range a.pending {
		if v > m {
			m = v
		}
	}
	return m
}

func (a *c18Acct) upperMF() int64 {
	m := a.ackedMF
	for _, v := range a.pendingMF {
		if v > m {
			m = v
		}
	}
	return m
}

func (a *c18Acct) upper(s *c18AStream) int64 { return a.upperInit() + s.credit }

// exact is the stream window when no SETTINGS is pending.
func (a *c18Acct) exact(s *c18AStream) int64 { return a.acked + s.credit }

func (a *c18Acct) bump() {
	for _, s := range a.streams {
		if u := a.upper(s); u > s.hw {
			s.hw = u
		}
	}
}

func (a *c18Acct) open(id uint32) {
	s := &c18AStream{id: id}
	s.hw = a.upper(s)
	a.streams = append(a.streams, s)
}

// quiescent: harness fact — no sender holds bytes it has taken and not yet written.
func (a *c18Acct) quiescent() {
	for _, s := range a.streams {
		s.hw = a.upper(s)
	}
}

// senderStarts: harness fact — the sender of the stream starts now (it cannot have taken bytes before).
func (a *c18Acct) senderStarts(s *c18AStream) {
	s.started = true
	s.hw = a.upper(s)
}

func c18AFrames(b []byte, bad func(string), each func(typ, flags byte, sid uint32, payload []byte)) {
	for len(b) > 0 {
		if len(b) < 9 {
			bad(fmt.Sprintf("%d trailing bytes", len(b)))
			return
		}
		l := int(b[0])<<16 | int(b[1])<<8 | int(b[2])
		if len(b) < 9+l {
			bad(fmt.Sprintf("frame of %d bytes, %d present", l, len(b)-9))
			return
		}
		sid := (uint32(b[5])<<24 | uint32(b[6])<<16 | uint32(b[7])<<8 | uint32(b[8])) & 0x7fffffff
		each(b[3], b[4], sid, b[9:9+l])
		b = b[9+l:]
	}
}

func c18AU32(p []byte) uint32 {
	return uint32(p[0])<<24 | uint32(p[1])<<16 | uint32(p[2])<<8 | uint32(p[3])
}

// peerSends accounts the frames the peer puts on the wire (called before MOSN reads them).
func (a *c18Acct) peerSends(b []byte) {
	c18AFrames(b, func(m string) { a.violate("harness: malformed peer frame", m) }, func(typ, flags byte, sid uint32, p []byte) {
		switch typ {
		case 4: // SETTINGS
			if flags&1 != 0 {
				return
			}
			init, mf := int64(-1), int64(-1)
			for ; len(p) >= 6; p = p[6:] {
				id, v := int(p[0])<<8|int(p[1]), int64(c18AU32(p[2:]))
				switch id {
				case 4:
					init = v
				case 5:
					mf = v
				}
			}
			if init >= 0 {
				if init < a.lastInit && len(a.streams) > 0 {
					a.lowered = true // lowered while a stream is open
				}
				a.lastInit = init
			}
			a.pending = append(a.pending, init)
			a.pendingMF = append(a.pendingMF, mf)
			a.log = append(a.log, fmt.Sprintf("p SETTINGS init=%d", init))
			a.bump()
		case 8: // WINDOW_UPDATE
			if len(p) != 4 {
				return
			}
			inc := int64(c18AU32(p) & 0x7fffffff)
			a.log = append(a.log, fmt.Sprintf("p WU s=%d +%d", sid, inc))
			if sid == 0 {
				a.conn += inc // the ONLY thing that widens the connection window
				return
			}
			if s := a.stream(sid); s != nil && !a.closed(s) {
				s.credit += inc
				a.bump()
			} else {
				a.lateWU = true // closed or never opened: ignored (RFC 7540 6.9, 5.1), nobody's window grows
			}
		case 1: // HEADERS: a request of the peer opens a stream of a server connection; a response with END_STREAM ends a stream of a client connection
			a.log = append(a.log, fmt.Sprintf("p HEADERS s=%d", sid))
			if !a.mosnIsClient && a.stream(sid) == nil {
				a.open(sid)
			}
			if s := a.stream(sid); a.mosnIsClient && s != nil && flags&1 != 0 {
				s.peerEnd = true
			}
		case 3: // RST_STREAM
			a.log = append(a.log, fmt.Sprintf("p RST s=%d", sid))
			if s := a.stream(sid); s != nil {
				s.peerRST = true
			}
		}
	})
}

// mosnWrites is the wire monitor of MOSN's direction.
func (a *c18Acct) mosnWrites(b []byte) {
	c18AFrames(b, func(m string) { a.violate("harness: truncated frame written", m) }, func(typ, flags byte, sid uint32, p []byte) {
		a.log = append(a.log, fmt.Sprintf("w t=%d f=%#x s=%d l=%d", typ, flags, sid, len(p)))
		switch typ {
		case 4:
			if flags&1 == 0 {
				return
			}
			if len(a.pending) == 0 {
				a.unsolicited++
				return
			}
			if v := a.pending[0]; v >= 0 {
				a.acked = v
			}
			if v := a.pendingMF[0]; v >= 0 {
				a.ackedMF = v
			}
			a.pending, a.pendingMF = a.pending[1:], a.pendingMF[1:]
		case 3:
			if len(p) == 4 && c18AU32(p) == 3 {
				a.flowErrWire = true
			}
			if s := a.stream(sid); s != nil {
				s.mosnRST = true
			}
		case 7:
			a.goAway = true
			if len(p) >= 8 && c18AU32(p[4:]) == 3 {
				a.flowErrWire = true
			}
		case 1:
			s := a.stream(sid)
			if s == nil && a.mosnIsClient {
				a.open(sid)
				s = a.stream(sid)
			}
			if s != nil && flags&1 != 0 {
				s.ends++
			}
		case 0:
			a.data(flags, sid, p)
		}
	})
}

func (a *c18Acct) qual() string {
	q := " [initial window never lowered]"
	if a.lowered {
		q = " [after the peer lowered SETTINGS_INITIAL_WINDOW_SIZE]"
	}
	if a.lateWU {
		q += " [after the peer sent a WINDOW_UPDATE for a closed or never-opened stream]"
	}
	return q
}

func (a *c18Acct) data(flags byte, sid uint32, p []byte) {
	s := a.stream(sid)
	if s == nil {
		a.violate("DATA frame on a stream that is not open", fmt.Sprintf("stream %d", sid))
		return
	}
	l := int64(len(p))
	body := p
	if flags&0x8 != 0 { // PADDED: the pad length octet and the padding are flow controlled (RFC 7540 6.1, 6.9.1)
		if len(p) == 0 || int(p[0]) > len(p)-1 {
			a.violate("malformed padded DATA frame written", fmt.Sprintf("stream %d payload %d", sid, len(p)))
			body = nil
		} else {
			body = p[1 : len(p)-int(p[0])]
		}
	}
	if s.ends > 0 {
		a.violate("DATA after END_STREAM", fmt.Sprintf("stream %d, %d bytes", sid, l))
	}
	if l > a.upperMF() {
		a.violate("DATA frame larger than the peer's SETTINGS_MAX_FRAME_SIZE", fmt.Sprintf("stream %d: frame of %d bytes, peer max frame size %d", sid, l, a.upperMF()))
	}
	if l > 0 {
		if l > s.hw {
			a.violate("DATA frame exceeds the stream window the peer advertises"+a.qual(),
				fmt.Sprintf("stream %d: DATA frame of %d bytes (%d sent before); stream window at most %d since the stream's previous DATA frame (initial window acknowledged %d, pending %v, stream increments minus DATA %d)",
					sid, l, s.cum, s.hw, a.acked, a.pending, s.credit))
		}
		if l > a.conn {
			a.violate("DATA frame exceeds the connection window the peer advertises"+a.qual(),
				fmt.Sprintf("stream %d: DATA frame of %d bytes, connection window %d", sid, l, a.conn))
		}
	}
	s.frames++
	s.cum += l
	s.credit -= l
	a.conn -= l
	s.data = append(s.data, body...)
	s.hw = a.upper(s)
	if flags&1 != 0 {
		s.ends++
	}
}

// ---------------------------------------------------------------------------
// one execution

type c18AObs struct {
	a        *c18Acct
	done     []bool
	errs     []error
	bad      []string
	setupErr string
	rounds   int    // rounds whose peer thread has finished
	terminal string // non-empty: the scenario was ended by an event the peer is not allowed to continue after
	outcome  []string
}

func (o *c18AObs) violate(key, detail string) { o.bad = append(o.bad, key+"\x00"+detail) }

func c18ABody(i, n int) []byte {
	b := make([]byte, n)
	for j := range b {
		b[j] = byte(j*31 + j>>8 + i*97 + 1)
	}
	return b
}

func c18AIsFlowErr(err error) bool {
	switch e := err.(type) {
	case ConnectionError:
		return ErrCode(e) == ErrCodeFlowControl
	case StreamError:
		return e.Code == ErrCodeFlowControl
	case *StreamError:
		return e.Code == ErrCodeFlowControl
	case connError:
		return e.Code == ErrCodeFlowControl
	case goAwayFlowError:
		return true
	}
	return false
}

// c18AIsStreamErr: err is a stream error of stream sid (the stream is reset, the connection lives on).
func c18AIsStreamErr(err error, sid uint32) bool {
	switch e := err.(type) {
	case StreamError:
		return e.StreamID == sid
	case *StreamError:
		return e.StreamID == sid
	}
	return false
}

func c18ARun(c c18ACase, o *c18AObs) func() {
	w := newC18Writer()
	c18Must(w.fw.WriteSettings(xhttp2.Setting{ID: xhttp2.SettingInitialWindowSize, Val: c.Window}, xhttp2.Setting{ID: xhttp2.SettingMaxFrameSize, Val: c.MaxFrame}))
	settings := append([]byte(nil), w.out.Bytes()...)
	n := len(c.Bodies)
	reqHeaders := make([][]byte, n)
	bodies := make([][]byte, n)
	for i := 0; i < n; i++ {
		w.out.Reset()
		c18Headers(w, uint32(2*i+1), []xhpack.HeaderField{{Name: ":method", Value: "GET"}, {Name: ":scheme", Value: "http"}, {Name: ":path", Value: "/"}, {Name: ":authority", Value: "h"}}, true, 0, xhttp2.PriorityParam{}, nil)
		reqHeaders[i] = append([]byte(nil), w.out.Bytes()...)
		bodies[i] = c18ABody(i, c.Bodies[i])
	}
	return func() {
		a := newC18Acct(c.Side == "client")
		*o = c18AObs{a: a, done: make([]bool, n), errs: make([]error, n)}
		conn := newC18Conn()
		conn.onWrite = a.mosnWrites
		ctx := context.Background()
		var rawDeliver func(b []byte) (*MStream, error)
		var sc *MServerConn
		var cc *MClientConn
		if c.Side == "server" {
			sc = NewServerConn(conn)
			rawDeliver = func(b []byte) (*MStream, error) {
				f, _, err := sc.Framer.ReadFrame(ctx, buffer.NewIoBufferBytes(b), 0)
				if err != nil {
					return nil, err
				}
				m, _, _, _, err := sc.HandleFrame(ctx, f)
				return m, err
			}
		} else {
			cc = NewClientConn(conn)
			rawDeliver = func(b []byte) (*MStream, error) {
				f, _, err := cc.Framer.ReadFrame(ctx, buffer.NewIoBufferBytes(b), 0)
				if err != nil {
					return nil, err
				}
				_, _, _, _, _, err = cc.HandleFrame(ctx, f)
				return nil, err
			}
		}
		deliver := func(b []byte) (*MStream, error) {
			a.peerSends(b)
			return rawDeliver(b)
		}
		senders := make([]func() error, n)
		resets := make([]func(), n) // MOSN's own reset of the stream
		opened := 0
		openStream := func() error {
			i := opened
			if i >= n {
				return fmt.Errorf("no body for stream %d", i)
			}
			if sc != nil {
				ms, err := deliver(reqHeaders[i])
				if err != nil || ms == nil {
					return fmt.Errorf("request HEADERS %d: %v %v", i, err, ms)
				}
				ms.Response = &http.Response{StatusCode: 200, Header: http.Header{"Content-Type": []string{"application/octet-stream"}}}
				ms.SendData = buffer.NewIoBufferBytes(bodies[i])
				senders[i] = ms.SendResponse
				resets[i] = ms.Reset
			} else {
				req, err := http.NewRequest("POST", "http://h.example/p", nil)
				if err != nil {
					return err
				}
				req.Header.Set("Content-Length", strconv.Itoa(c.Bodies[i]))
				ms := NewMClientStream(cc, req)
				ms.SendData = buffer.NewIoBufferBytes(bodies[i])
				if err := ms.RoundTrip(ctx); err != nil { // first call: HEADERS
					return fmt.Errorf("request HEADERS %d: %v", i, err)
				}
				senders[i] = func() error { return ms.RoundTrip(ctx) } // second call: DATA + END_STREAM
				resets[i] = ms.Reset
			}
			if len(a.streams) != i+1 {
				return fmt.Errorf("stream %d: accountant saw %d streams open", i, len(a.streams))
			}
			opened++
			return nil
		}
		startSender := func(i int) {
			a.senderStarts(a.streams[i])
			vrt.GoNamed(fmt.Sprintf("sender%c", 'A'+i), func() {
				o.errs[i] = senders[i]()
				o.done[i] = true
			})
		}
		// event delivers one environment event; exact = every sender is quiescent (windows exactly known).
		event := func(e c18AEv, exact bool) {
			switch e.K {
			case "open":
				if err := openStream(); err != nil {
					o.setupErr = "open: " + err.Error()
					o.terminal = "harness"
					return
				}
				startSender(opened - 1)
			case "wu":
				var sid uint32
				window, what, ended := a.conn, "connection", false
				if e.S < 0 || e.S > len(a.streams) || (e.S > 0 && a.closed(a.streams[e.S-1])) {
					// a stream that has never been opened (idle) or is closed: the frame must not move anybody's window. That is
					// decided by the accountant on the DATA frames that follow (safety) and at the quiescences (liveness). The
					// answer itself: nil and a stream error are accepted; a connection error for a CLOSED stream tears down every
					// other stream of the connection because of a frame RFC 7540 6.9 / 5.1 tells the receiver to expect.
					sid, what = 2, "never-opened"
					if e.S > len(a.streams) {
						sid = uint32(2*e.S - 1)
					} else if e.S > 0 {
						sid, what = a.streams[e.S-1].id, "closed"
					}
					fr := []byte{0, 0, 4, 8, 0, byte(sid >> 24), byte(sid >> 16), byte(sid >> 8), byte(sid), byte(e.N >> 24), byte(e.N >> 16), byte(e.N >> 8), byte(e.N)}
					goAway := a.goAway
					_, err := deliver(fr)
					if c18AIsStreamErr(err, sid) && a.goAway == goAway {
						err = nil
					}
					switch {
					case err == nil && a.goAway == goAway:
					case what == "closed":
						o.violate("a WINDOW_UPDATE for a closed stream is answered with a connection error",
							fmt.Sprintf("%v: stream %d (peer RST_STREAM %v, peer END_STREAM %v, MOSN RST_STREAM %v, MOSN END_STREAM %d), connection window %d: %v, GOAWAY written %v",
								e, sid, a.streams[e.S-1].peerRST, a.streams[e.S-1].peerEnd, a.streams[e.S-1].mosnRST, a.streams[e.S-1].ends, a.conn, err, a.goAway))
						o.terminal = "WINDOW_UPDATE on a closed stream answered with a connection error"
					default:
						o.terminal = "WINDOW_UPDATE on a never-opened stream answered with an error (RFC 7540 5.1 allows PROTOCOL_ERROR; not compared)"
					}
					return
				}
				if e.S > 0 {
					s := a.streams[e.S-1]
					sid, window, what, ended = s.id, a.exact(s), "stream", s.ends > 0
					if !exact {
						window = a.upper(s)
					}
				}
				overflow := window+int64(e.N) > c18AMax
				fr := []byte{0, 0, 4, 8, 0, byte(sid >> 24), byte(sid >> 16), byte(sid >> 8), byte(sid), byte(e.N >> 24), byte(e.N >> 16), byte(e.N >> 8), byte(e.N)}
				_, err := deliver(fr)
				answered := err != nil && (c18AIsFlowErr(err) || a.flowErrWire)
				switch {
				case err == nil && !overflow:
				case err == nil && exact && !ended:
					o.violate("overflow: a WINDOW_UPDATE that raises the "+what+" window above 2^31-1 is not answered with FLOW_CONTROL_ERROR (RFC 7540 6.9.1)",
						fmt.Sprintf("%v: %s window %d + %d = %d; HandleFrame returned nil, no GOAWAY/RST_STREAM(FLOW_CONTROL_ERROR) written", e, what, window, e.N, window+int64(e.N)))
					o.terminal = "overflow accepted"
				case err == nil:
					o.terminal = "overflow possible, accepted (not compared)"
				case overflow && answered:
					o.terminal = "overflow answered with FLOW_CONTROL_ERROR"
				case overflow:
					if exact && !ended {
						o.violate("overflow: a WINDOW_UPDATE that raises the "+what+" window above 2^31-1 is not answered with FLOW_CONTROL_ERROR (RFC 7540 6.9.1)",
							fmt.Sprintf("%v: %s window %d + %d = %d; answered with %v", e, what, window, e.N, window+int64(e.N), err))
					}
					o.terminal = "overflow answered with another error"
				case !ended:
					// window is an upper bound of what MOSN can have: the frame is legal under every timing
					o.violate("a legal WINDOW_UPDATE ("+what+" window stays <= 2^31-1) is rejected",
						fmt.Sprintf("%v: %s window %d + %d: %v", e, what, window, e.N, err))
					o.terminal = "legal frame rejected"
				default:
					o.terminal = "WINDOW_UPDATE on a stream MOSN has ended rejected (not compared)"
				}
			case "init":
				fr := []byte{0, 0, 6, 4, 0, 0, 0, 0, 0, 0, 4, byte(e.N >> 24), byte(e.N >> 16), byte(e.N >> 8), byte(e.N)}
				over := false // would an open stream's window exceed 2^31-1 (RFC 7540 6.9.2)?
				for _, s := range a.streams {
					w := a.upper(s)
					if exact {
						w = a.exact(s)
					}
					if s.ends == 0 && w+int64(e.N)-a.upperInit() > c18AMax {
						over = true
					}
				}
				_, err := deliver(fr)
				switch {
				case int64(e.N) > c18AMax:
					if err == nil || !(c18AIsFlowErr(err) || a.flowErrWire) {
						o.violate("overflow: SETTINGS_INITIAL_WINDOW_SIZE above 2^31-1 is not answered with FLOW_CONTROL_ERROR (RFC 7540 6.5.2)", fmt.Sprintf("%v: %v", e, err))
					}
					o.terminal = "invalid SETTINGS"
				case over:
					// 6.9.2 demands a connection error; the reference transport ignores it like MClientConn: not compared
					o.terminal = fmt.Sprintf("SETTINGS raises an open stream's window above 2^31-1: err=%v (not compared)", err != nil)
				case err != nil:
					o.violate("a legal SETTINGS_INITIAL_WINDOW_SIZE change is rejected", fmt.Sprintf("%v: %v", e, err))
					o.terminal = "legal frame rejected"
				}
			case "rst", "resp", "mreset":
				if e.S < 1 || e.S > len(a.streams) || (e.K == "resp" && sc != nil) {
					o.setupErr = fmt.Sprintf("event %v: stream not opened / event not defined for this side", e)
					o.terminal = "harness"
					return
				}
				sid := a.streams[e.S-1].id
				if e.K == "mreset" {
					resets[e.S-1]()
					return
				}
				fr := []byte{0, 0, 4, 3, 0, byte(sid >> 24), byte(sid >> 16), byte(sid >> 8), byte(sid), 0, 0, 0, 8} // RST_STREAM(CANCEL)
				if e.K == "resp" {
					fr = []byte{0, 0, 1, 1, 0x5, byte(sid >> 24), byte(sid >> 16), byte(sid >> 8), byte(sid), 0x88} // HEADERS END_STREAM|END_HEADERS, ":status: 200" (static table)
				}
				goAway := a.goAway
				if _, err := deliver(fr); (err != nil && !c18AIsStreamErr(err, sid)) || a.goAway != goAway {
					// HandleFrame hands a received RST_STREAM to its caller as a StreamError of that stream; anything else ends the scenario
					o.terminal = fmt.Sprintf("%s answered with a connection-level error %v (not compared)", e.K, err)
				}
			default:
				o.setupErr = "unknown event " + e.K
				o.terminal = "harness"
			}
		}
		// liveness oracle at a quiescence
		quiescence := func(where string) {
			if o.terminal != "" {
				return
			}
			if len(a.pending) > 0 || a.unsolicited > 0 {
				o.violate("SETTINGS frames of the peer and SETTINGS acknowledgements do not pair up at quiescence",
					fmt.Sprintf("%s: %d SETTINGS not acknowledged, %d acknowledgements without SETTINGS", where, len(a.pending), a.unsolicited))
				return
			}
			for i, s := range a.streams {
				if !s.started {
					continue
				}
				name := string(rune('A' + i))
				left := int64(c.Bodies[i]) - int64(len(s.data))
				if a.aborted(s) && (!o.done[i] || o.errs[i] != nil) {
					continue // reset / answered early: whether and how its sender gives up is not part of the statement
				}
				if o.done[i] {
					switch {
					case o.errs[i] != nil:
						o.violate("sender returns an error", fmt.Sprintf("%s: stream %s: %v", where, name, o.errs[i]))
					case !bytes.Equal(s.data, bodies[i]):
						o.violate("delivered DATA differs from the body", fmt.Sprintf("%s: stream %s delivered %d bytes, body %d", where, name, len(s.data), c.Bodies[i]))
					case s.ends != 1:
						o.violate("END_STREAM not sent exactly once after the complete body", fmt.Sprintf("%s: stream %s: %d END_STREAM flags", where, name, s.ends))
					}
					continue
				}
				ws := a.exact(s)
				if left > 0 && ws > 0 && a.conn > 0 {
					o.violate("sender left blocked although its stream window and the connection window are open (lost wake-up)"+a.qual(),
						fmt.Sprintf("%s: stream %s sent %d of %d, stream window %d, connection window %d", where, name, len(s.data), c.Bodies[i], ws, a.conn))
				}
				if left <= 0 {
					o.violate("sender blocked after the complete body (END_STREAM missing)", fmt.Sprintf("%s: stream %s", where, name))
				}
			}
			a.quiescent()
		}

		if _, err := deliver(settings); err != nil {
			o.setupErr = "SETTINGS: " + err.Error()
			return
		}
		for i := 0; i < c.Open; i++ {
			if err := openStream(); err != nil {
				o.setupErr = err.Error()
				return
			}
		}
		for _, e := range c.Pre {
			if o.terminal != "" {
				break
			}
			event(e, true)
		}
		if o.terminal != "" {
			return
		}
		for i := 0; i < c.Open; i++ {
			startSender(i)
		}
		for r, evs := range c.Rounds {
			if len(evs) > 0 {
				r, evs := r, evs
				vrt.GoNamed("peer", func() {
					for k, e := range evs {
						if o.terminal != "" {
							break
						}
						event(e, r > 0 && k == 0)
					}
					o.rounds++
				})
			} else {
				o.rounds++
			}
			vrt.Quiesce()
			if o.rounds != r+1 {
				o.setupErr = fmt.Sprintf("round %d: peer thread did not finish", r)
				return
			}
			if o.terminal != "" {
				return
			}
			quiescence(fmt.Sprintf("after round %d %v", r, evs))
		}
		// the closing rounds re-open every window far beyond the bodies: everything must have been delivered
		if os.Getenv("C18A_NOFINAL") == "" && c.Layer != "overflow" {
			for i, s := range a.streams {
				if s.started && !o.done[i] && !a.aborted(s) {
					o.violate("body not completely delivered although the windows were re-opened far beyond it"+a.qual(),
						fmt.Sprintf("stream %c sent %d of %d, stream window %d, connection window %d", 'A'+i, len(s.data), c.Bodies[i], a.exact(s), a.conn))
				}
			}
		}
	}
}

func c18AExplore(p *vreport.Part, c c18ACase, replay bool) bool {
	var o c18AObs
	body := c18ARun(c, &o)
	opts := vrt.Options{Bound: c.Bound, MaxSteps: 40000}
	if replay {
		opts.Replay = true
		opts.Prefix = c.Choices
	}
	pre := "flow-accountant side=" + c.Side + ": "
	tag := fmt.Sprintf("%s|%s|%d|%v|%d|%v|%v", c.Layer, c.Side, c.Open, c.Bodies, c.Window, c.Pre, c.Rounds)
	st := vrt.Explore(opts, body, func(r *vrt.Result) {
		p.Eval()
		cc := c
		cc.Choices = r.Choices
		where := fmt.Sprintf("open=%d bodies=%v window=%d maxframe=%d pre=%v rounds=%v schedule=%v", c.Open, c.Bodies, c.Window, c.MaxFrame, c.Pre, c.Rounds, r.Choices)
		if o.setupErr != "" || len(r.Panics) > 0 || r.StepLimit || r.Diverged != "" || o.terminal == "harness" {
			p.Violation("harness: accountant execution did not run as scripted", fmt.Sprintf("%s: setup=%q %s panics=%v", where, o.setupErr, r.String(), r.Panics), cc)
			return
		}
		a := o.a
		p.Distinct(tag + "|" + strings.Join(a.log, ";"))
		sent := make([]int64, len(a.streams))
		for i, s := range a.streams {
			sent[i] = s.cum
		}
		ab := ""
		for i, s := range a.streams {
			if a.aborted(s) {
				ab += fmt.Sprintf(" aborted=%c(peerRST=%v,peerEnd=%v,mosnRST=%v,err=%v)", 'A'+i, s.peerRST, s.peerEnd, s.mosnRST, o.errs[i] != nil)
			}
		}
		if a.lateWU {
			ab += " lateWU"
		}
		p.Outcome(fmt.Sprintf("done=%v sent=%v lowered=%v end=%s%s", o.done, sent, a.lowered, o.terminal, ab))
		if os.Getenv("C18A_TRACE") != "" {
			fmt.Printf("EXEC %s pre=%v rounds=%v sched=%v: done=%v sent=%v end=%q bad=%d\n   %s\n", c.Side, c.Pre, c.Rounds, r.Choices, o.done, sent, o.terminal, len(a.bad)+len(o.bad), strings.Join(a.log, "; "))
		}
		if p.WantSample() {
			p.Sample(map[string]interface{}{"case": cc, "wire_and_peer_log": a.log, "senders_done": o.done, "terminal": o.terminal})
		}
		for _, b := range append(append([]string(nil), a.bad...), o.bad...) {
			kv := strings.SplitN(b, "\x00", 2)
			p.Violation(pre+kv[0], where+": "+kv[1]+"; log="+strings.Join(a.log, "; "), cc)
		}
	})
	p.AddTraces(st.Executions)
	if os.Getenv("VERIF_DEBUG") != "" {
		fmt.Printf("case %+v: execs=%d maxdepth=%d complete=%v\n", c, st.Executions, st.MaxDepth, st.Complete)
	}
	return st.Complete
}

// ---------------------------------------------------------------------------
// case generators

func c18AInit(n uint32) c18AEv      { return c18AEv{K: "init", N: n} }
func c18AWU(s int, n uint32) c18AEv { return c18AEv{K: "wu", S: s, N: n} }

var c18AOpenEv = c18AEv{K: "open"}

// c18ASeqs: every sequence of exactly depth events over alpha in which "open" occurs at most once,
// a WINDOW_UPDATE addresses only a stream that is open at that point (open0 streams at the start) and
// no event repeats its predecessor.
func c18ASeqs(alpha []c18AEv, depth, open0 int, canOpen bool) [][]c18AEv {
	var out [][]c18AEv
	var rec func(cur []c18AEv, open int, opened bool)
	rec = func(cur []c18AEv, open int, opened bool) {
		if len(cur) == depth {
			out = append(out, append([]c18AEv(nil), cur...))
			return
		}
		for _, e := range alpha {
			if e.K == "open" && (opened || !canOpen) {
				continue
			}
			if e.K == "wu" && e.S > open {
				continue
			}
			if len(cur) > 0 && cur[len(cur)-1] == e && e.K == "init" {
				continue // the same initial window twice is a no-op
			}
			o2, op2 := open, opened
			if e.K == "open" {
				o2, op2 = open+1, true
			}
			rec(append(cur, e), o2, op2)
		}
	}
	rec(nil, open0, false)
	return out
}

func c18ASingles(evs []c18AEv) [][]c18AEv {
	var out [][]c18AEv
	for _, e := range evs {
		out = append(out, []c18AEv{e})
	}
	return out
}

// c18AHistoryCases: layer "histories". Small numbers: peer initial window 6; stream A body 40 (never finishes before
// the closing rounds), stream B body 8, the late stream body 5. The senders first run to quiescence (round 0 is empty:
// A and B have sent 6 bytes each), then ONE event per round (quiescence after every event: exact oracle), optionally
// the first event already before the senders start (Pre). Closing rounds: init=1000.
func c18AHistoryCases() []c18ACase {
	th := vreport.Thorough()
	var cases []c18ACase
	closing := [][]c18AEv{{c18AInit(1000)}}
	for _, side := range []string{"server", "client"} {
		for _, open := range []int{1, 2} {
			bodies := []int{40, 5}
			if open == 2 {
				bodies = []int{40, 8, 5}
			}
			alpha := []c18AEv{c18AInit(0), c18AInit(1), c18AInit(3), c18AInit(6), c18AInit(12), c18AWU(1, 1), c18AWU(1, 7), c18AWU(0, 1), c18AOpenEv, c18AWU(open+1, 2)}
			if open == 2 {
				alpha = append(alpha, c18AWU(2, 3))
			}
			depth, bound := 3, 1
			if open == 2 {
				depth, bound = 2, 0
			}
			if th {
				depth, bound = 4, 1
				if open == 2 {
					depth = 3
				}
			}
			for _, preN := range []int{0, 1} {
				d := depth
				if preN == 1 && !th {
					d = depth - 1
				}
				for _, seq := range c18ASeqs(alpha, d, open, true) {
					if preN == 1 && seq[0].K == "open" {
						continue
					}
					c := c18ACase{Layer: "histories", Side: side, Open: open, Bodies: bodies, Window: 6, MaxFrame: 16384, Bound: bound}
					c.Pre = seq[:preN]
					c.Rounds = append([][]c18AEv{{}}, c18ASingles(seq[preN:])...)
					c.Rounds = append(c.Rounds, closing...)
					cases = append(cases, c)
				}
			}
			if th && open == 1 {
				// deeper histories on the default schedule only
				for _, seq := range c18ASeqs(alpha, 5, open, true) {
					c := c18ACase{Layer: "histories", Side: side, Open: open, Bodies: bodies, Window: 6, MaxFrame: 16384, Bound: 0}
					c.Rounds = append([][]c18AEv{{}}, c18ASingles(seq)...)
					c.Rounds = append(c.Rounds, closing...)
					cases = append(cases, c)
				}
			}
		}
		// the CONNECTION window is the limit: initial window 65535, stream A (65531 bytes) runs to completion and leaves
		// 4 bytes of connection window, then stream B (12 bytes) is opened: it sends 4 and blocks on the connection.
		alphaK := []c18AEv{c18AInit(0), c18AInit(2), c18AInit(65535), c18AInit(65540), c18AWU(0, 1), c18AWU(0, 6), c18AWU(2, 3)}
		for _, seq := range c18ASeqs(alphaK, vreport.Pick(2, 3), 2, false) {
			c := c18ACase{Layer: "histories", Side: side, Open: 1, Bodies: []int{65531, 12}, Window: 65535, MaxFrame: 16384, Bound: vreport.Pick(0, 1)}
			c.Rounds = append([][]c18AEv{{}, {c18AOpenEv}}, c18ASingles(seq)...)
			c.Rounds = append(c.Rounds, []c18AEv{c18AInit(65535)}, []c18AEv{c18AWU(0, 100)})
			cases = append(cases, c)
		}
	}
	return cases
}

// c18AConcurrentCases: layer "concurrent". The script of a round is delivered by the peer thread while the senders run.
func c18AConcurrentCases() []c18ACase {
	th := vreport.Thorough()
	var cases []c18ACase
	for _, side := range []string{"server", "client"} {
		// small numbers, one and two streams
		for _, open := range []int{1, 2} {
			bodies := []int{20, 5}
			if open == 2 {
				bodies = []int{20, 8, 5}
			}
			alpha := []c18AEv{c18AInit(0), c18AInit(1), c18AInit(3), c18AInit(12), c18AWU(1, 7), c18AWU(0, 1), c18AOpenEv}
			if open == 2 {
				alpha = append(alpha, c18AWU(2, 3))
			}
			lens, bound := []int{1, 2}, 0
			if open == 1 {
				bound = 2
			}
			if th {
				lens, bound = []int{1, 2, 3}, 1
				if open == 1 {
					bound = 3
				}
			}
			for _, l := range lens {
				b := bound
				if l == 3 {
					b = vreport.Pick(0, 1)
					if open == 2 {
						b = 0
					}
				}
				if l == 1 && open == 2 {
					b = bound + 1
				}
				for _, seq := range c18ASeqs(alpha, l, open, true) {
					lower := false
					for _, e := range seq {
						if e.K == "init" && e.N < 6 {
							lower = true
						}
					}
					if !lower {
						continue // scripts without a lowering SETTINGS are what the older flow parts cover
					}
					cases = append(cases, c18ACase{Layer: "concurrent", Side: side, Open: open, Bodies: bodies, Window: 6, MaxFrame: 16384, Bound: b,
						Rounds: [][]c18AEv{seq, {c18AInit(1000)}}})
					if (th && l <= 2) || l == 1 {
						// the same script after the senders have come to rest, in one round
						cases = append(cases, c18ACase{Layer: "concurrent", Side: side, Open: open, Bodies: bodies, Window: 6, MaxFrame: 16384, Bound: b,
							Rounds: [][]c18AEv{{}, seq, {c18AInit(1000)}}})
					}
				}
			}
		}
		// bodies larger than the window, multi-frame: the shape of a server that throttles uploads
		big := [][]c18AEv{
			{c18AInit(0)},
			{c18AInit(1000)},
			{c18AInit(1000), c18AWU(1, 5000)},
			{c18AInit(0), c18AInit(65535)},
			{c18AInit(1), c18AWU(1, 1)},
			{c18AWU(1, 5000), c18AInit(20000)},
		}
		for _, body := range []int{40000, 70000} {
			for _, seq := range big {
				cases = append(cases, c18ACase{Layer: "concurrent", Side: side, Open: 1, Bodies: []int{body}, Window: 65535, MaxFrame: 16384, Bound: vreport.Pick(1, 3),
					Rounds: [][]c18AEv{seq, {c18AWU(1, 1)}, {c18AWU(1, 4999)}, {c18AInit(200000)}, {c18AWU(0, 100000)}}})
			}
		}
		// two big streams, the initial window lowered while both send
		for _, seq := range [][]c18AEv{{c18AInit(0)}, {c18AInit(1000), c18AWU(2, 3000)}} {
			cases = append(cases, c18ACase{Layer: "concurrent", Side: side, Open: 2, Bodies: []int{30000, 30000}, Window: 65535, MaxFrame: 16384, Bound: vreport.Pick(1, 2),
				Rounds: [][]c18AEv{seq, {c18AInit(200000)}, {c18AWU(0, 100000)}}})
		}
	}
	return cases
}

// c18AOverflowCases: layer "overflow": windows at / next to 2^31-1. Peer initial window 6 (or 2^31-1), body 40.
func c18AOverflowCases() []c18ACase {
	M := uint32(c18AMax)
	var cases []c18ACase
	for _, side := range []string{"server", "client"} {
		mk := func(open int, window uint32, pre []c18AEv, rounds ...[]c18AEv) {
			bodies := []int{40, 8}[:open]
			cases = append(cases, c18ACase{Layer: "overflow", Side: side, Open: open, Bodies: bodies, Window: window, MaxFrame: 16384, Pre: pre,
				Rounds: append([][]c18AEv{{}}, rounds...), Bound: 1})
		}
		// connection window
		mk(1, 6, []c18AEv{c18AWU(0, M-65535)})                                                 // exactly 2^31-1: accepted
		mk(1, 6, []c18AEv{c18AWU(0, M-65535), c18AWU(0, 1)})                                   // one above
		mk(1, 6, []c18AEv{c18AWU(0, M-65535+1)})                                               // one above in one frame
		mk(1, 6, []c18AEv{c18AWU(0, M)})                                                       // far above
		mk(1, 6, []c18AEv{c18AWU(0, M-65535)}, []c18AEv{c18AWU(0, 6)}, []c18AEv{c18AWU(0, 1)}) // after 6 bytes were sent: +6 reaches the limit again, +1 exceeds it
		mk(1, 6, []c18AEv{c18AWU(0, M-65535)}, []c18AEv{c18AWU(0, 7)})
		// stream window
		mk(1, 6, []c18AEv{c18AWU(1, M-6)}) // exactly 2^31-1: accepted, the body is sent
		mk(1, 6, []c18AEv{c18AWU(1, M-6), c18AWU(1, 1)})
		mk(1, 6, []c18AEv{c18AWU(1, M-5)})
		mk(1, 6, []c18AEv{c18AWU(1, M)})
		mk(1, M, []c18AEv{c18AWU(1, 1)})                             // the initial window is already 2^31-1
		mk(1, M, nil)                                                // ... and is simply used
		mk(2, 6, []c18AEv{c18AWU(2, M-6), c18AWU(2, 1)})             // the younger of two streams
		mk(2, 6, []c18AEv{c18AWU(2, M-6)}, []c18AEv{c18AWU(1, 100)}) // B at the limit is legal, A continues
		// negative window: lowered below what was sent, then a maximal increment is legal
		mk(1, 6, nil, []c18AEv{c18AInit(0)}, []c18AEv{c18AWU(1, M)})
		mk(1, 6, nil, []c18AEv{c18AInit(0)}, []c18AEv{c18AWU(0, 100)}, []c18AEv{c18AWU(1, 5)}, []c18AEv{c18AWU(1, M-5)})
		// SETTINGS
		mk(1, 6, []c18AEv{c18AInit(1 << 31)}) // invalid value
		mk(1, 6, nil, []c18AEv{c18AInit(1 << 31)})
		mk(1, 6, []c18AEv{c18AInit(M)})                 // legal maximum
		mk(1, 6, []c18AEv{c18AWU(1, M-6), c18AInit(7)}) // SETTINGS raise overflows the open stream: enumerated, not compared
		mk(1, 6, []c18AEv{c18AWU(1, M-6), c18AInit(5)}) // lowering at the limit is legal
	}
	return cases
}

func c18ARunPart(name, layer string, cases []c18ACase, budget time.Duration, bound, rule string) {
	p := vreport.Begin("C18", name, budget)
	var rc c18ACase
	if vreport.Replaying() {
		if vreport.ReplayFor("C18", name, &rc) {
			c18AExplore(p, rc, true)
			p.End(true, "replay", "replay of one recorded schedule")
		}
		return
	}
	si, sn := vreport.Shard()
	complete := true
	n := 0
	for i, c := range cases {
		if i%sn != si {
			continue
		}
		if p.Expired() {
			complete = false
			break
		}
		n++
		if !c18AExplore(p, c, false) {
			complete = false
		}
	}
	p.Note("cases", n)
	p.Note("cases_all_shards", len(cases))
	p.End(complete, bound, rule)
}

const c18ARule = "every case x every schedule within the preemption bound on the instrumented package; evaluations = executions; distinct = (case, wire+peer event log); " +
	"oracle = window accountant fed with the bytes of both directions (lowered initial window effective from MOSN's SETTINGS ACK, increments from the peer's send; one DATA frame of grace per stream across a lowering while the sender runs, none at quiescence), liveness at every quiescence, closing rounds re-open all windows"

func TestVerifC18FlowControlAccountant(t *testing.T) {
	if vreport.Replaying() {
		c18ARunPart("flow-accountant-histories", "histories", nil, time.Minute, "", "")
		c18ARunPart("flow-accountant-concurrent", "concurrent", nil, time.Minute, "", "")
		c18ARunPart("flow-accountant-overflow", "overflow", nil, time.Minute, "", "")
		return
	}
	// determinism self-check: the default schedule of one multi-round case twice, same log
	{
		c := c18ACase{Layer: "histories", Side: "client", Open: 2, Bodies: []int{40, 8, 5}, Window: 6, MaxFrame: 16384,
			Rounds: [][]c18AEv{{}, {c18AInit(1)}, {c18AOpenEv}, {c18AWU(1, 7)}, {c18AInit(1000)}}}
		var o1, o2 c18AObs
		vrt.Explore(vrt.Options{Replay: true}, c18ARun(c, &o1), func(*vrt.Result) {})
		l1 := fmt.Sprint(o1.a.log)
		vrt.Explore(vrt.Options{Replay: true}, c18ARun(c, &o2), func(*vrt.Result) {})
		if l1 != fmt.Sprint(o2.a.log) || len(o1.a.log) < 10 || o1.setupErr != "" {
			vreport.HarnessError("C18", "flow-accountant-histories", "default schedule is not deterministic or did not run: "+l1+" vs "+fmt.Sprint(o2.a.log)+" "+o1.setupErr)
			return
		}
	}
	only := os.Getenv("C18A_LAYER")
	if only == "" || only == "histories" {
		c18ARunPart("flow-accountant-histories", "histories", c18AHistoryCases(), time.Duration(vreport.Pick(3, 25))*time.Minute,
			"sides server (MStream.SendResponse) and client (MClientStream.RoundTrip); peer initial window 6, 1 stream (body 40) or 2 streams (40, 8) open, a further stream (5) opened by the event 'open'; the senders run to quiescence, then one event per round with quiescence after each: "+
				"events {SETTINGS_INITIAL_WINDOW_SIZE = 0 | 1 | 3 (below the 6 bytes already sent: negative window) | 6 | 12, WINDOW_UPDATE stream A +1 | +7, stream B +3, late stream +2, connection +1, open}; "+
				map[bool]string{false: "quick: every sequence of 3 events (1 stream, <=1 preemption) / 2 events (2 streams, no preemption, every choice at blocking points), the first event also before the senders start (then one event less)",
					true: "thorough: every sequence of 4 events (1 stream) / 3 events (2 streams), the first event also before the senders start, <=1 preemption; every sequence of 5 events (1 stream) on the default schedule"}[vreport.Thorough()]+
				"; plus connection-window-limited histories (initial window 65535, stream A 65531 bytes completes, stream B 12 bytes opened afterwards blocks on the 4 bytes of connection window left): every sequence of "+fmt.Sprint(vreport.Pick(2, 3))+" events over {initial window 0 | 2 | 65535 | 65540, WINDOW_UPDATE connection +1 | +6, stream B +3}; closing rounds re-open every window",
			c18ARule)
	}
	if only == "" || only == "concurrent" {
		c18ARunPart("flow-accountant-concurrent", "concurrent", c18AConcurrentCases(), time.Duration(vreport.Pick(3, 25))*time.Minute,
			"sides server and client; a peer thread delivers a script containing at least one LOWERING SETTINGS_INITIAL_WINDOW_SIZE while the senders run (and the same script after they came to rest): peer initial window 6, bodies 20 / (20, 8), late stream 5, "+
				map[bool]string{false: "quick: every script of 1..2 events, <=2 preemptions (1 stream) / 1 event with <=1 preemption, 2 events without preemption but every choice at blocking points (2 streams)", true: "thorough: every script of 1..2 events with <=3 preemptions (1 stream) / <=2 for 1 event, <=1 for 2 events (2 streams), every script of 3 events with <=1 preemption (1 stream) / none (2 streams)"}[vreport.Thorough()]+
				" over {initial window 0 | 1 | 3 | 12, WINDOW_UPDATE stream A +7, stream B +3, connection +1, open}; multi-frame bodies 40000 / 70000 with peer initial window 65535 lowered mid-flight to 0 | 1 | 1000 (with WINDOW_UPDATE 5000 before/after, raised again) and two streams of 30000, <="+fmt.Sprint(vreport.Pick(1, 3))+" preemptions; closing rounds WINDOW_UPDATE +1, +4999, initial window 200000, connection +100000",
			c18ARule)
	}
	if only == "" || only == "overflow" {
		c18ARunPart("flow-accountant-overflow", "overflow", c18AOverflowCases(), time.Duration(vreport.Pick(1, 5))*time.Minute,
			"sides server and client; 21 scripts per side: connection / stream window raised by WINDOW_UPDATE to exactly 2^31-1 (accepted), to one above in one or two frames, far above, after DATA was sent, with the initial window already 2^31-1, on the younger of two streams, from a negative window (initial window lowered below the bytes sent, then +2^31-1); SETTINGS_INITIAL_WINDOW_SIZE 2^31 (invalid), 2^31-1 (legal), a raise that overflows an open stream (answer not compared); <=1 preemption",
			c18ARule+"; overflow answers compared only where the window is exactly known (event delivered while every sender is quiescent)")
	}
}
