//go:build verif

package http2

// C18 (c), two concurrent streams on ONE connection. All response writers of an
// MServerConn (request writers of an MClientConn) park on the connection's single
// condition variable in awaitFlowControl; a wake-up aimed at "the" writer
// (cond.Signal) reaches the oldest waiter, which may belong to the other stream.
//
// Threads: sender A (stream 1), sender B (stream 3), peer (delivers the script of
// WINDOW_UPDATE frames through the real ReadFrame + HandleFrame). The peer's
// SETTINGS and both HEADERS are processed by thread 0 before the threads start.
// All interleavings within the preemption bound.
//
// Oracle per stream, same wire monitor as the one-stream part: cumulative DATA
// of a stream <= its window granted by the frames the peer has sent so far,
// cumulative DATA of both streams <= connection window granted so far, frame <=
// peer max frame size, no DATA after END_STREAM. At quiescence (all peer frames
// processed, nobody can run): a sender that has returned must have returned nil,
// delivered exactly its body and END_STREAM; a sender that is still blocked with
// body left although BOTH its stream window and the connection window still have
// room is a violation (lost wake-up); a sender blocked because one of the two
// is exhausted is what the statement demands. Which of two streams gets a scarce
// connection window is not compared (statement silent).

import (
	"bytes"
	"context"
	"fmt"
	"net/http"
	"os"
	"strconv"
	"testing"
	"time"

	xhttp2 "golang.org/x/net/http2"
	xhpack "golang.org/x/net/http2/hpack"
	"mosn.io/mosn/pkg/verifrt/vreport"
	"mosn.io/mosn/pkg/verifrt/vrt"
	"mosn.io/pkg/buffer"
)

type c18Flow2Case struct {
	Side     string      `json:"side"`   // "server" | "client"
	Bodies   [2]int      `json:"bodies"` // body of stream A (older) and stream B
	Window   uint32      `json:"window"` // peer SETTINGS_INITIAL_WINDOW_SIZE
	MaxFrame uint32      `json:"max_frame"`
	Script   [][2]uint32 `json:"script"` // {0,n} WINDOW_UPDATE(connection) | {1,n} WINDOW_UPDATE(stream A) | {2,n} WINDOW_UPDATE(stream B)
	Bound    int         `json:"bound"`
	Choices  []int       `json:"choices,omitempty"`
}

type c18Flow2Obs struct {
	ids       [2]uint32
	grant     [2]int64
	grantConn int64
	maxFrame  uint32
	cum       [2]int64
	data      [2][]byte
	ended     [2]bool
	done      [2]bool
	err       [2]error
	bad       []string
	peerDone  bool
	peerErr   error
	setupErr  string
	log       []string
}

func (o *c18Flow2Obs) violate(key, detail string) { o.bad = append(o.bad, key+"\x00"+detail) }

func (o *c18Flow2Obs) onWrite(b []byte) {
	for len(b) >= 9 {
		l := int(b[0])<<16 | int(b[1])<<8 | int(b[2])
		typ, flags := b[3], b[4]
		sid := (uint32(b[5])<<24 | uint32(b[6])<<16 | uint32(b[7])<<8 | uint32(b[8])) & 0x7fffffff
		if len(b) < 9+l {
			o.violate("harness: truncated frame written", fmt.Sprint(len(b), l))
			return
		}
		payload := b[9 : 9+l]
		b = b[9+l:]
		o.log = append(o.log, fmt.Sprintf("w t=%d f=%#x s=%d l=%d", typ, flags, sid, l))
		if typ != 0 {
			continue
		}
		i := -1
		for k, id := range o.ids {
			if id != 0 && id == sid {
				i = k
			}
		}
		if i < 0 {
			o.violate("DATA frame on an unexpected stream", fmt.Sprintf("stream %d, expected one of %v", sid, o.ids))
			continue
		}
		if flags&0x8 != 0 {
			o.violate("harness: padded DATA not modelled", "")
		}
		if o.ended[i] {
			o.violate("DATA after END_STREAM", fmt.Sprintf("stream %d, %d bytes", sid, l))
		}
		o.cum[i] += int64(l)
		o.data[i] = append(o.data[i], payload...)
		if uint32(l) > o.maxFrame {
			o.violate("DATA frame larger than the peer's SETTINGS_MAX_FRAME_SIZE", fmt.Sprintf("frame of %d bytes, peer max frame size %d", l, o.maxFrame))
		}
		if o.cum[i] > o.grant[i] {
			o.violate("DATA exceeds the stream window granted so far", fmt.Sprintf("stream %d: cumulative DATA %d after a frame of %d, stream window granted so far %d", sid, o.cum[i], l, o.grant[i]))
		}
		if o.cum[0]+o.cum[1] > o.grantConn {
			o.violate("DATA exceeds the connection window granted so far", fmt.Sprintf("cumulative DATA of both streams %d after a frame of %d on stream %d, connection window granted so far %d", o.cum[0]+o.cum[1], l, sid, o.grantConn))
		}
		if flags&0x1 != 0 {
			o.ended[i] = true
		}
	}
}

func c18Flow2Run(c c18Flow2Case, o *c18Flow2Obs) func() {
	w := newC18Writer()
	c18Must(w.fw.WriteSettings(xhttp2.Setting{ID: xhttp2.SettingInitialWindowSize, Val: c.Window}, xhttp2.Setting{ID: xhttp2.SettingMaxFrameSize, Val: c.MaxFrame}))
	settings := append([]byte(nil), w.out.Bytes()...)
	var reqHeaders [2][]byte
	for i, sid := range []uint32{1, 3} {
		w.out.Reset()
		c18Headers(w, sid, []xhpack.HeaderField{{Name: ":method", Value: "GET"}, {Name: ":scheme", Value: "http"}, {Name: ":path", Value: "/"}, {Name: ":authority", Value: "h"}}, true, 0, xhttp2.PriorityParam{}, nil)
		reqHeaders[i] = append([]byte(nil), w.out.Bytes()...)
	}
	bodies := [2][]byte{c18Body(c.Bodies[0]), c18Body(c.Bodies[1])}
	return func() {
		*o = c18Flow2Obs{grant: [2]int64{int64(c.Window), int64(c.Window)}, grantConn: c18ConnWindow, maxFrame: c.MaxFrame}
		conn := newC18Conn()
		conn.onWrite = o.onWrite
		ctx := context.Background()
		var deliver func(b []byte) error
		var senders [2]func() error
		if c.Side == "server" {
			sc := NewServerConn(conn)
			var last *MStream
			deliver = func(b []byte) error {
				f, _, err := sc.Framer.ReadFrame(ctx, buffer.NewIoBufferBytes(b), 0)
				if err != nil {
					return err
				}
				m, _, _, _, err := sc.HandleFrame(ctx, f)
				last = m
				return err
			}
			if err := deliver(settings); err != nil {
				o.setupErr = "SETTINGS: " + err.Error()
				return
			}
			for i := range reqHeaders {
				if err := deliver(reqHeaders[i]); err != nil || last == nil {
					o.setupErr = fmt.Sprintf("request HEADERS %d: %v", i, err)
					return
				}
				ms := last
				ms.Response = &http.Response{StatusCode: 200, Header: http.Header{"Content-Type": []string{"application/octet-stream"}}}
				ms.SendData = buffer.NewIoBufferBytes(bodies[i])
				o.ids[i] = ms.ID()
				senders[i] = ms.SendResponse
			}
		} else {
			cc := NewClientConn(conn)
			deliver = func(b []byte) error {
				f, _, err := cc.Framer.ReadFrame(ctx, buffer.NewIoBufferBytes(b), 0)
				if err != nil {
					return err
				}
				_, _, _, _, _, err = cc.HandleFrame(ctx, f)
				return err
			}
			if err := deliver(settings); err != nil {
				o.setupErr = "SETTINGS: " + err.Error()
				return
			}
			for i := range bodies {
				req, err := http.NewRequest("POST", "http://h.example/p", nil)
				if err != nil {
					o.setupErr = err.Error()
					return
				}
				req.Header.Set("Content-Length", strconv.Itoa(c.Bodies[i]))
				ms := NewMClientStream(cc, req)
				ms.SendData = buffer.NewIoBufferBytes(bodies[i])
				if err := ms.RoundTrip(ctx); err != nil { // HEADERS
					o.setupErr = "request HEADERS: " + err.Error()
					return
				}
				o.ids[i] = ms.GetID()
				senders[i] = func() error { return ms.RoundTrip(ctx) } // DATA + END_STREAM
			}
		}
		for i := range senders {
			i := i
			vrt.GoNamed(fmt.Sprintf("sender%c", 'A'+i), func() {
				o.err[i] = senders[i]()
				o.done[i] = true
			})
		}
		vrt.GoNamed("peer", func() {
			for _, u := range c.Script {
				sid := uint32(0)
				switch u[0] {
				case 1, 2:
					sid = o.ids[u[0]-1]
					o.grant[u[0]-1] += int64(u[1]) // the peer has sent it: granted from now on
				default:
					o.grantConn += int64(u[1])
				}
				wu := []byte{0, 0, 4, 8, 0, byte(sid >> 24), byte(sid >> 16), byte(sid >> 8), byte(sid), byte(u[1] >> 24), byte(u[1] >> 16), byte(u[1] >> 8), byte(u[1])}
				o.log = append(o.log, fmt.Sprintf("p s=%d +%d", sid, u[1]))
				if err := deliver(wu); err != nil {
					o.peerErr = err
					break
				}
			}
			o.peerDone = true
		})
		vrt.Quiesce()
	}
}

func c18Flow2Explore(p *vreport.Part, c c18Flow2Case, replay bool) bool {
	var o c18Flow2Obs
	body := c18Flow2Run(c, &o)
	exp := [2][]byte{c18Body(c.Bodies[0]), c18Body(c.Bodies[1])}
	opts := vrt.Options{Bound: c.Bound, MaxSteps: 20000}
	if replay {
		opts.Replay = true
		opts.Prefix = c.Choices
	}
	pre := "flow-control 2 streams side=" + c.Side + ": "
	st := vrt.Explore(opts, body, func(r *vrt.Result) {
		p.Eval()
		cc := c
		cc.Choices = r.Choices
		where := fmt.Sprintf("bodies=%v window=%d maxframe=%d script=%v schedule=%v", c.Bodies, c.Window, c.MaxFrame, c.Script, r.Choices)
		if o.setupErr != "" || len(r.Panics) > 0 || r.StepLimit || r.Diverged != "" || !o.peerDone || o.peerErr != nil {
			p.Violation("harness: 2-stream flow-control execution did not run as scripted", fmt.Sprintf("%s: setup=%q peerDone=%v peerErr=%v %s panics=%v", where, o.setupErr, o.peerDone, o.peerErr, r.String(), r.Panics), cc)
			return
		}
		p.Distinct(fmt.Sprintf("%s|%v|%d|%v|%v", c.Side, c.Bodies, c.Window, c.Script, o.log))
		p.Outcome(fmt.Sprintf("done=%v sent=%v", o.done, o.cum))
		if p.WantSample() {
			p.Sample(map[string]interface{}{"case": cc, "wire_and_peer_log": o.log, "senders_done": o.done})
		}
		for _, b := range o.bad {
			kv := bytes.SplitN([]byte(b), []byte{0}, 2)
			p.Violation(pre+string(kv[0]), where+": "+string(kv[1]), cc)
		}
		connLeft := o.grantConn - o.cum[0] - o.cum[1]
		for i := 0; i < 2; i++ {
			name := string(rune('A' + i))
			if o.done[i] {
				switch {
				case o.err[i] != nil:
					// a sender may only fail if it could not have completed; with scripted legal peers it never should
					p.Violation(pre+"sender returns an error", fmt.Sprintf("%s: stream %s: %v", where, name, o.err[i]), cc)
				case !bytes.Equal(o.data[i], exp[i]):
					p.Violation(pre+"delivered DATA differs from the body", fmt.Sprintf("%s: stream %s delivered %d bytes, body %d", where, name, len(o.data[i]), c.Bodies[i]), cc)
				case !o.ended[i]:
					p.Violation(pre+"END_STREAM not sent after the complete body", fmt.Sprintf("%s: stream %s", where, name), cc)
				}
				continue
			}
			left := int64(c.Bodies[i]) - o.cum[i]
			streamLeft := o.grant[i] - o.cum[i]
			if left > 0 && streamLeft > 0 && connLeft > 0 {
				p.Violation(pre+"sender left blocked although its stream window and the connection window are open (lost wake-up)",
					fmt.Sprintf("%s: stream %s sent %d of %d, stream window left %d, connection window left %d; blocked=%v", where, name, o.cum[i], c.Bodies[i], streamLeft, connLeft, r.Blocked), cc)
			}
			if left == 0 {
				p.Violation(pre+"sender blocked after the complete body (END_STREAM missing)", fmt.Sprintf("%s: stream %s", where, name), cc)
			}
		}
	})
	p.AddTraces(st.Executions)
	if os.Getenv("VERIF_DEBUG") != "" {
		fmt.Printf("case %+v: execs=%d maxdepth=%d complete=%v\n", c, st.Executions, st.MaxDepth, st.Complete)
	}
	return st.Complete
}

// c18Flow2Merges: all interleavings of two ordered lists of script items.
func c18Flow2Merges(a, b [][2]uint32) [][][2]uint32 {
	if len(a) == 0 && len(b) == 0 {
		return [][][2]uint32{{}}
	}
	var out [][][2]uint32
	if len(a) > 0 {
		for _, rest := range c18Flow2Merges(a[1:], b) {
			out = append(out, append([][2]uint32{a[0]}, rest...))
		}
	}
	if len(b) > 0 {
		for _, rest := range c18Flow2Merges(a, b[1:]) {
			out = append(out, append([][2]uint32{b[0]}, rest...))
		}
	}
	return out
}

func c18Flow2Cases() []c18Flow2Case {
	th := vreport.Thorough()
	var cases []c18Flow2Case
	seen := map[string]bool{}
	add := func(c c18Flow2Case) {
		k := fmt.Sprint(c.Side, c.Bodies, c.Window, c.Script)
		if !seen[k] {
			seen[k] = true
			cases = append(cases, c)
		}
	}
	tag := func(target uint32, incs []uint32) [][2]uint32 {
		var out [][2]uint32
		for _, n := range incs {
			out = append(out, [2]uint32{target, n})
		}
		return out
	}
	sides := []string{"server", "client"}
	bodyPairs := [][2]int{{1, 1}, {2, 1}, {1, 2}}
	windows := []uint32{0}
	parts := 2
	bound := 2
	if th {
		bodyPairs = [][2]int{{1, 1}, {2, 1}, {1, 2}, {5, 5}, {7, 1}, {1, 16385}}
		windows = []uint32{0, 1}
		bound = 3
	}
	for _, side := range sides {
		for _, bp := range bodyPairs {
			for _, w := range windows {
				bound := bound
				if bp != [2]int{1, 1} {
					bound-- // quick: <=2 preemptions for bodies (1,1), <=1 for the longer scripts; thorough: 3 and 2
				}
				if bp[1] > 16384 {
					bound = 1 // multi-frame body: <=1 preemption
				}
				ma, mb := int64(bp[0])-int64(w), int64(bp[1])-int64(w)
				// stream windows missing on both / one stream: every composition for A x every composition for B x every merge
				for _, ca := range c18Compositions(ma, parts, false) {
					for _, cb := range c18Compositions(mb, parts, false) {
						for _, s := range c18Flow2Merges(tag(1, ca), tag(2, cb)) {
							add(c18Flow2Case{Side: side, Bodies: bp, Window: w, MaxFrame: 16384, Script: s, Bound: bound})
						}
					}
				}
				// insufficient: only one of the streams is granted, nothing at all, one byte short on B,
				// and an (unneeded) connection-level update between the two stream updates
				if ma > 0 && mb > 0 {
					add(c18Flow2Case{Side: side, Bodies: bp, Window: w, MaxFrame: 16384, Script: tag(1, []uint32{uint32(ma)}), Bound: bound})
					add(c18Flow2Case{Side: side, Bodies: bp, Window: w, MaxFrame: 16384, Script: tag(2, []uint32{uint32(mb)}), Bound: bound})
					add(c18Flow2Case{Side: side, Bodies: bp, Window: w, MaxFrame: 16384, Script: nil, Bound: bound})
					add(c18Flow2Case{Side: side, Bodies: bp, Window: w, MaxFrame: 16384, Script: [][2]uint32{{2, uint32(mb)}, {0, 1}, {1, uint32(ma)}}, Bound: bound})
					add(c18Flow2Case{Side: side, Bodies: bp, Window: w, MaxFrame: 16384, Script: [][2]uint32{{2, uint32(mb)}, {1, uint32(ma)}, {0, 1}}, Bound: bound})
					if mb > 1 {
						add(c18Flow2Case{Side: side, Bodies: bp, Window: w, MaxFrame: 16384, Script: [][2]uint32{{2, uint32(mb - 1)}, {1, uint32(ma)}}, Bound: bound})
					}
				}
			}
		}
		// the connection window is the limit: two bodies of 32768 (65536 = connection window + 1), stream windows ample
		cb := vreport.Pick(1, 2)
		for _, s := range [][][2]uint32{{{0, 1}}, {}, {{0, 1}, {0, 1}}, {{1, 1}}} {
			add(c18Flow2Case{Side: side, Bodies: [2]int{32768, 32768}, Window: 65535, MaxFrame: 16384, Script: s, Bound: cb})
		}
	}
	return cases
}

func TestVerifC18FlowControlTwoStreams(t *testing.T) {
	name := "flow-control-2streams"
	p := vreport.Begin("C18", name, time.Duration(vreport.Pick(3, 20))*time.Minute)
	var rc c18Flow2Case
	if vreport.Replaying() {
		if vreport.ReplayFor("C18", name, &rc) {
			c18Flow2Explore(p, rc, true)
			p.End(true, "replay", "replay of one recorded schedule")
		}
		return
	}
	cases := c18Flow2Cases()
	si, sn := vreport.Shard()
	complete := true
	n := 0
	for i, c := range cases {
		if i%sn != si {
			continue
		}
		if p.Expired() {
			complete = false
			break
		}
		n++
		if !c18Flow2Explore(p, c, false) {
			complete = false
		}
	}
	p.Note("cases", n)
	p.Note("cases_all_shards", len(cases))
	p.End(complete, "two streams (A older, B) on one server connection (MStream.SendResponse x2) and on one client connection (MClientStream.RoundTrip x2); "+
		map[bool]string{false: "quick: peer initial window 0, bodies (1,1) with <=2 preemptions, (2,1) (1,2) with <=1 preemption", true: "thorough: peer initial window 0/1, bodies (1,1) with <=3 preemptions, (2,1) (1,2) (5,5) (7,1) with <=2, (1,16385) with <=1"}[vreport.Thorough()]+
		"; scripts: every composition of each stream's missing window into <=2 WINDOW_UPDATE increments, every merge of the two streams' updates (either stream first), plus one stream only / nothing / one byte short / an extra connection-level update; plus bodies (32768,32768) with ample stream windows where the connection window (65535) is one byte short, connection-level updates {+1 | none | +1,+1 | stream-level only}, <="+fmt.Sprint(vreport.Pick(1, 2))+" preemptions; 3 threads (sender A, sender B, peer)",
		"every case x every schedule within the preemption bound on the instrumented package; evaluations = executions; distinct = (case, wire+peer event log); at quiescence a blocked sender with body left, open stream window and open connection window is a lost wake-up")
}
