//go:build verif

package http2

// C18 (d'), window accountant x STREAM LIFECYCLE: peer frames that refer to a stream in
// every state of its life — never opened (odd id beyond the last stream, even id), open
// and blocked, finished (END_STREAM sent), reset by the peer (RST_STREAM), answered
// completely by the peer (MOSN as client: response HEADERS+END_STREAM), reset by MOSN
// itself (MStream.Reset / MClientStream.Reset) — must not change the flow-control books
// of OTHER streams or of the CONNECTION. RFC 7540 6.9: "WINDOW_UPDATE can be sent by a
// peer that has sent a frame bearing the END_STREAM flag. This means that a receiver
// could receive a WINDOW_UPDATE frame on a half-closed (remote) or closed stream. A
// receiver MUST NOT treat this as an error"; 5.1: frames may arrive for a while after a
// RST_STREAM was sent. Such a frame grants nothing to anybody.
//
// Seam, threads, accountant and oracle are those of zz_verif_C18_flowacct_test.go: the
// accountant sees only the bytes of both directions, adds to the CONNECTION window
// nothing but the increments of WINDOW_UPDATE frames on stream 0, to a stream window
// nothing but the increments addressed to that stream while it is not closed, and
// charges every DATA frame MOSN writes (also one that leaves on a stream reset a moment
// ago: the peer has to count it against the connection window, 6.9/5.1) to both.
// Safety: the first DATA frame larger than min(stream window, connection window) is a
// violation. Liveness: at every quiescence a sender of a stream that has NOT been reset /
// answered early must not rest with both windows open; the closing rounds re-open all
// windows and every such sender must have delivered its body. Nothing is demanded of the
// sender of a reset / early-answered stream (statement silent).
//
// Two families of histories (one event per round, quiescence after every event: the
// oracle is exact), both with MOSN as server (response bodies) and as client (request
// bodies):
//
//	connection-bound: peer initial window 65535; stream A (65531 bytes) runs to completion
//	   and leaves 4 bytes of CONNECTION window; streams B (12 bytes) and C (9 bytes) are
//	   opened by events: their stream windows are wide open, the connection window is the
//	   binding limit. A WINDOW_UPDATE for a finished / reset / never-opened stream that is
//	   credited to the connection lets B or C overrun the 4 bytes; every history is
//	   followed by a later stream (closing round "open" if the history has none) and by a
//	   connection-level update that lets everything finish.
//	stream-bound: peer initial window 6; A (40 bytes) and B (8 bytes) open, both rest
//	   after 6 bytes on their STREAM windows; late stream C (5 bytes). A credit that leaks
//	   from a closed / idle stream to another stream shows as an overrun of that stream.

import (
	"testing"
	"time"

	mlog "mosn.io/mosn/pkg/log"
	"mosn.io/mosn/pkg/verifrt/vreport"
	plog "mosn.io/pkg/log"
)

func c18ARst(s int) c18AEv    { return c18AEv{K: "rst", S: s} }
func c18AResp(s int) c18AEv   { return c18AEv{K: "resp", S: s} }
func c18AMReset(s int) c18AEv { return c18AEv{K: "mreset", S: s} }

// c18ALifeSeqs: every sequence of exactly depth events over alpha in which "open" occurs at most maxOpen times,
// rst / resp / mreset address a stream that has been opened at that point (open0 at the start; a WINDOW_UPDATE may
// address ANY stream index: beyond the opened ones it is a never-opened stream) and no rst / resp / mreset / init
// repeats its predecessor (the second one is a no-op).
func c18ALifeSeqs(alpha []c18AEv, depth, open0, maxOpen int) [][]c18AEv {
	var out [][]c18AEv
	var rec func(cur []c18AEv, open, opens int)
	rec = func(cur []c18AEv, open, opens int) {
		if len(cur) == depth {
			out = append(out, append([]c18AEv(nil), cur...))
			return
		}
		for _, e := range alpha {
			switch e.K {
			case "open":
				if opens >= maxOpen {
					continue
				}
			case "rst", "resp", "mreset":
				if e.S > open {
					continue
				}
			}
			if len(cur) > 0 && cur[len(cur)-1] == e && e.K != "wu" && e.K != "open" {
				continue
			}
			o2, n2 := open, opens
			if e.K == "open" {
				o2, n2 = open+1, opens+1
			}
			rec(append(cur, e), o2, n2)
		}
	}
	rec(nil, open0, 0)
	return out
}

func c18ACountOpens(seq []c18AEv) int {
	n := 0
	for _, e := range seq {
		if e.K == "open" {
			n++
		}
	}
	return n
}

// c18ALifecycleCases: layer "lifecycle".
func c18ALifecycleCases() []c18ACase {
	th := vreport.Thorough()
	M := uint32(c18AMax)
	var cases []c18ACase
	for _, side := range []string{"server", "client"} {
		// ---- connection-bound
		alpha := []c18AEv{c18AOpenEv, c18AWU(0, 1), c18AWU(1, 5), c18AWU(2, 3), c18AWU(3, 2), c18AWU(-1, 2), c18ARst(1), c18ARst(2), c18AMReset(1), c18AMReset(2)}
		if side == "client" {
			alpha = append(alpha, c18AResp(1), c18AResp(2))
		}
		if th {
			alpha = append(alpha, c18AWU(1, M), c18AWU(2, M)) // a huge late increment: on a closed stream nothing may overflow
		}
		connCase := func(seq []c18AEv, oneRound bool, bound int) c18ACase {
			c := c18ACase{Layer: "lifecycle", Side: side, Open: 1, Bodies: []int{65531, 12, 9}, Window: 65535, MaxFrame: 16384, Bound: bound}
			c.Rounds = [][]c18AEv{{}}
			if oneRound {
				c.Rounds = append(c.Rounds, seq)
			} else {
				c.Rounds = append(c.Rounds, c18ASingles(seq)...)
			}
			if c18ACountOpens(seq) == 0 {
				c.Rounds = append(c.Rounds, []c18AEv{c18AOpenEv}) // the later stream whose body is larger than what is left of the connection window
			}
			c.Rounds = append(c.Rounds, []c18AEv{c18AWU(0, 100)})
			return c
		}
		for _, seq := range c18ALifeSeqs(alpha, 3, 1, 2) {
			cases = append(cases, connCase(seq, false, vreport.Pick(0, 1)))
		}
		if th {
			for _, seq := range c18ALifeSeqs(alpha, 4, 1, 2) {
				cases = append(cases, connCase(seq, false, 0))
			}
		}
		// the same events delivered by the peer thread in ONE round, racing with the senders they open / reset
		for d := 2; d <= vreport.Pick(2, 3); d++ {
			for _, seq := range c18ALifeSeqs(alpha[:len(alpha)-map[bool]int{false: 0, true: 2}[th]], d, 1, 2) {
				late := false // only scripts that contain a WINDOW_UPDATE for a stream other than the connection
				for _, e := range seq {
					if e.K == "wu" && e.S != 0 {
						late = true
					}
				}
				if late && c18ACountOpens(seq) > 0 {
					cases = append(cases, connCase(seq, true, vreport.Pick(1, 2)))
				}
			}
		}
		// ---- stream-bound
		alphaS := []c18AEv{c18AOpenEv, c18AWU(0, 1), c18AWU(1, 1), c18AWU(2, 3), c18AWU(3, 2), c18ARst(1), c18ARst(2), c18AMReset(2)}
		if side == "client" {
			alphaS = append(alphaS, c18AResp(2))
		}
		if th {
			alphaS = append(alphaS, c18AInit(3), c18AInit(12), c18AMReset(1), c18AWU(-1, 2))
			if side == "client" {
				alphaS = append(alphaS, c18AResp(1))
			}
		}
		for _, d := range []int{3, 4}[:vreport.Pick(1, 2)] {
			for _, seq := range c18ALifeSeqs(alphaS, d, 2, 1) {
				c := c18ACase{Layer: "lifecycle", Side: side, Open: 2, Bodies: []int{40, 8, 5}, Window: 6, MaxFrame: 16384, Bound: vreport.Pick(0, 4-d)}
				c.Rounds = append([][]c18AEv{{}}, c18ASingles(seq)...)
				c.Rounds = append(c.Rounds, []c18AEv{c18AInit(1000)})
				cases = append(cases, c)
			}
		}
	}
	return cases
}

func TestVerifC18FlowControlLifecycle(t *testing.T) {
	const name = "flow-accountant-lifecycle"
	// every reset is logged by mosn (WARN / ERROR): millions of lines in the thorough tier. Same level in replay mode.
	lv := mlog.DefaultLogger.GetLogLevel()
	mlog.DefaultLogger.SetLogLevel(plog.FATAL)
	defer mlog.DefaultLogger.SetLogLevel(lv)
	if vreport.Replaying() {
		c18ARunPart(name, "lifecycle", nil, time.Minute, "", "")
		return
	}
	c18ARunPart(name, "lifecycle", c18ALifecycleCases(), time.Duration(vreport.Pick(4, 30))*time.Minute,
		"sides server (MStream.SendResponse) and client (MClientStream.RoundTrip); peer frames addressed to streams in every lifecycle state: WINDOW_UPDATE for stream A / B / C in whatever state it is "+
			"(never opened: odd id beyond the last stream and even id 2; open and blocked; finished; reset by the peer; answered with HEADERS+END_STREAM (client); reset by MOSN), RST_STREAM from the peer, "+
			"response HEADERS+END_STREAM (client), MOSN's own Reset, 'open' of a later stream, connection WINDOW_UPDATE +1. "+
			"connection-bound family: peer initial window 65535, A (65531 bytes) completes and leaves 4 bytes of connection window, B (12) and C (9) opened by events (stream windows wide open, the connection window binds), "+
			"every history followed by a later stream and a connection update +100: "+
			map[bool]string{false: "quick: every sequence of 3 events, one per round, no preemption (every choice at blocking points); every script of 2 events with a stream-level WINDOW_UPDATE and an 'open' delivered in ONE round while the senders run, <=1 preemption",
				true: "thorough: every sequence of 3 events with <=1 preemption and of 4 events without preemption (also WINDOW_UPDATE +2^31-1 for A / B), one per round; every script of 2..3 events with a stream-level WINDOW_UPDATE and an 'open' in ONE round, <=2 preemptions"}[vreport.Thorough()]+
			"; stream-bound family: peer initial window 6, A (40) and B (8) open and resting on their stream windows, late stream C (5): "+
			map[bool]string{false: "quick: every sequence of 3 events over {open, WINDOW_UPDATE connection +1 | A +1 | B +3 | C +2, RST_STREAM A | B, MOSN reset B, response B (client)}, no preemption",
				true: "thorough: every sequence of 3 events with <=1 preemption and of 4 events without preemption, additionally SETTINGS_INITIAL_WINDOW_SIZE 3 | 12, MOSN reset A, response A (client), WINDOW_UPDATE even id"}[vreport.Thorough()]+
			"; closing rounds re-open every window",
		c18ARule+"; a WINDOW_UPDATE for a closed or never-opened stream adds to no window of the accountant; DATA on a stream reset a moment ago is still charged to the connection; "+
			"nothing is demanded of the sender of a reset / early-answered stream; a connection error in answer to a WINDOW_UPDATE for a CLOSED stream is a violation (for a never-opened stream: not compared)")
}
