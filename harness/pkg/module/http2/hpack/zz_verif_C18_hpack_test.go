//go:build verif

package hpack

// C18 (a): MOSN's HPACK (pkg/module/http2/hpack, a fork of an old x/net hpack)
// is wire-compatible with golang.org/x/net/http2/hpack v0.23.0 across
// dynamic-table size changes.
//
// Explicit-state BFS over the product of SIX real objects:
//
//	EM  MOSN encoder          EX  x/net encoder
//	DMM MOSN  decoder <- EM   DMX MOSN  decoder <- EX   (x/net -> MOSN)
//	DXM x/net decoder <- EM   DXX x/net decoder <- EX   (reference pair)
//	    (MOSN -> x/net)
//
// Events: encode one header field from a boundary alphabet with both encoders
// and feed the produced bytes to the decoders of that encoder; or "the peer
// changed SETTINGS_HEADER_TABLE_SIZE": SetMaxDynamicTableSize(v) on both
// encoders (the decoders keep the allowed maximum 4096 they were created with,
// exactly as MOSN's NewServerConn/NewClientConn do). A size change is only
// legal between header blocks, so it first closes the open block.
//
// A state is the event history; a successor is produced by replaying the
// history on six FRESH objects plus one event (live objects do not clone).
//
// Canonical state (de-duplication key) = for each of the six objects every
// field its future behaviour depends on:
//
//	encoder: dynamic table (entries oldest..newest with Sensitive flag, size,
//	         maxSize, allowedMaxSize, the two search maps with ids made
//	         relative to evictCount), minSize, maxSizeLimit, tableSizeUpdate;
//	decoder: the same dynamic-table projection, firstField, len(saveBuf),
//	         emitEnabled, maxStrLen;
//	harness: whether a header block is open.
//
// Why merged states have the same futures: Encoder.WriteField / SetMax…Size and
// Decoder.Write / Close read and write only these fields (Encoder.buf is reset
// at the top of WriteField, Encoder.w is the harness buffer which is reset
// before every event, Decoder.buf is only valid during one Write, Decoder.emit
// is re-installed by the harness before every Write). The absolute unique ids
// in byName/byNameValue and evictCount only ever enter a result through
// id-evictCount (idToIndex; evictOldest compares ids of live entries; addEntry
// hands out len+evictCount+1), so normalising ids by evictCount loses nothing
// (evictCount overflow is 2^64 evictions away). Two histories with equal
// canonical states therefore produce identical outputs and identical canonical
// successors for every future event sequence. The x/net objects' unexported
// fields are read with package reflect (read-only; the fork kept the field
// names, so one reader serves both); a renamed field is a loud harness error,
// not a silent merge.
//
// Oracle (no stronger than the statement):
//   - every decoder emits exactly the encoded field: name, value and the
//     sensitive (never-indexed) flag, no extra and no missing field, no error,
//     Close() of the block succeeds;
//   - after a field has been encoded (all pending size updates flushed) the
//     encoder's dynamic table (entries + max size) equals the table of each of
//     its decoders. This is implied by the statement because the quantifier
//     ranges over ALL later header lists: if the tables differ at some entry,
//     the header list consisting of the encoder-side entry is encoded as an
//     index and decodes to a different field; if only the limits differ, adding
//     fields until one side evicts gives the same;
//   - NOT demanded: byte-identical encodings of the two encoders, identical
//     indexing decisions of EM and EX (their tables are compared only as a
//     reported note `encoder_tables_differ`).
//   - Reference quirk: x/net's decoder rejects the second of two consecutive
//     table-size updates when the table is non-empty (hpack.go
//     parseDynamicTableSizeUpdate: `!d.firstField && d.dynTab.size > 0`), although
//     x/net's own encoder emits two updates after SetMax(lo);SetMax(hi). MOSN's
//     fork behaves identically. When the REFERENCE pair EX->DXX fails on an
//     event, the statement (which is relative to the reference) gives no
//     expected value: counted in the note `reference_pair_rejects`, whether
//     MOSN's decoder did the same on the same bytes is noted, nothing is
//     reported; the state is terminal (contexts are desynchronised).

import (
	"bytes"
	"fmt"
	"reflect"
	"sort"
	"strings"
	"testing"
	"time"

	xhpack "golang.org/x/net/http2/hpack"
	"mosn.io/mosn/pkg/verifrt/vreport"
)

type c18Ev struct {
	Kind      string // "field" | "size"
	Name      string
	Value     string
	Sensitive bool
	Size      uint32
}

const (
	// 40 bytes, Huffman-friendly (5/6-bit codes): both encoders choose Huffman
	c18Huff40 = "abcdefghijklmnopqrstuvwxyzabcdefghijklmn"
	// 40 bytes whose Huffman form is longer than raw (13..15-bit codes): both encoders choose raw
	c18Raw40 = "{<>}^~`\\{<>}^~`\\{<>}^~`\\{<>}^~`\\{<>}^~`\\"
)

var c18Events = []c18Ev{
	{Kind: "field", Name: ":method", Value: "GET"},          // 0 static name+value match
	{Kind: "field", Name: "a", Value: "1"},                  // 1
	{Kind: "field", Name: "a", Value: "2"},                  // 2 repeated name, other value
	{Kind: "field", Name: "b", Value: c18Huff40},            // 3 long value, huffman on (entry size 73 > 64)
	{Kind: "field", Name: "c", Value: "s", Sensitive: true}, // 4 never indexed
	{Kind: "field", Name: "d", Value: ""},                   // 5 empty value
	{Kind: "field", Name: "b", Value: c18Raw40},             // 6 long value, huffman off
	{Kind: "size", Size: 0},                                 // 7
	{Kind: "size", Size: 64},                                // 8
	{Kind: "size", Size: 4096},                              // 9
	// exact-fill sizes (RFC 7541 4.4 evicts only while size > max): (a,1) is 34 bytes, so 34 is filled
	// exactly by one entry and 68 exactly by (a,1)+(a,2); (a,1)+(d,"") = 67 leaves one byte free
	{Kind: "size", Size: 68}, // 10
	{Kind: "size", Size: 34}, // 11
}

func (e c18Ev) String() string {
	if e.Kind == "size" {
		return fmt.Sprintf("size(%d)", e.Size)
	}
	v := e.Value
	if len(v) > 8 {
		v = v[:6] + "…"
	}
	s := ""
	if e.Sensitive {
		s = ",sensitive"
	}
	return fmt.Sprintf("(%s,%q%s)", e.Name, v, s)
}

// c18Case is one transition of the BFS: replay History[:len-1], check the last event.
type c18Case struct {
	Mode    string `json:"mode"`    // "A" one header block per field; "B" a block runs until the next size change; "C" like B, decoders fed byte by byte
	History []int  `json:"history"` // indices into c18Events
	Events  string `json:"events,omitempty"`
}

type c18Field struct {
	Name, Value string
	Sensitive   bool
}

type c18World struct {
	mode       string
	bm, bx     bytes.Buffer
	em         *Encoder
	ex         *xhpack.Encoder
	dmm, dmx   *Decoder
	dxm, dxx   *xhpack.Decoder
	open       bool // a header block is open on the decoders
	refBroken  bool // the reference pair failed: contexts desynchronised, terminal
	mosnBroken bool
}

func c18NewWorld(mode string) *c18World {
	w := &c18World{mode: mode}
	w.em = NewEncoder(&w.bm)
	w.ex = xhpack.NewEncoder(&w.bx)
	w.dmm = NewDecoder(4096, nil)
	w.dmx = NewDecoder(4096, nil)
	w.dxm = xhpack.NewDecoder(4096, nil)
	w.dxx = xhpack.NewDecoder(4096, nil)
	return w
}

// feedM / feedX write one encoded field to a decoder (whole or byte-wise) and return what it emitted.
func (w *c18World) feedM(d *Decoder, b []byte) (out []c18Field, err error) {
	d.SetEmitFunc(func(f HeaderField) { out = append(out, c18Field{f.Name, f.Value, f.Sensitive}) })
	if w.mode == "C" {
		for i := range b {
			if _, err = d.Write(b[i : i+1]); err != nil {
				return
			}
		}
	} else if _, err = d.Write(b); err != nil {
		return
	}
	if w.mode == "A" {
		err = d.Close()
	}
	return
}

func (w *c18World) feedX(d *xhpack.Decoder, b []byte) (out []c18Field, err error) {
	d.SetEmitFunc(func(f xhpack.HeaderField) { out = append(out, c18Field{f.Name, f.Value, f.Sensitive}) })
	if w.mode == "C" {
		for i := range b {
			if _, err = d.Write(b[i : i+1]); err != nil {
				return
			}
		}
	} else if _, err = d.Write(b); err != nil {
		return
	}
	if w.mode == "A" {
		err = d.Close()
	}
	return
}

type c18Problem struct{ key, detail string }

func c18Cmp(dir string, want c18Field, got []c18Field, err error) *c18Problem {
	if err != nil {
		return &c18Problem{"hpack " + dir + ": decoder rejects the other side's encoding", fmt.Sprintf("encoded %+v, decoder error: %v", want, err)}
	}
	if len(got) != 1 {
		return &c18Problem{"hpack " + dir + ": wrong number of decoded fields", fmt.Sprintf("encoded %+v, decoded %+v", want, got)}
	}
	g := got[0]
	switch {
	case g.Name != want.Name:
		return &c18Problem{"hpack " + dir + ": decoded name differs", fmt.Sprintf("encoded %+v, decoded %+v", want, g)}
	case g.Value != want.Value:
		return &c18Problem{"hpack " + dir + ": decoded value differs", fmt.Sprintf("encoded %+v, decoded %+v", want, g)}
	case g.Sensitive != want.Sensitive:
		return &c18Problem{"hpack " + dir + ": sensitive (never-indexed) flag differs", fmt.Sprintf("encoded %+v, decoded %+v", want, g)}
	}
	return nil
}

// closeBlock closes the open header block on all decoders.
func (w *c18World) closeBlock() (probs []c18Problem) {
	if !w.open {
		return nil
	}
	w.open = false
	if w.mode == "A" {
		return nil // closed after every field already
	}
	if err := w.dxx.Close(); err != nil {
		w.refBroken = true
		return nil
	}
	if err := w.dmm.Close(); err != nil {
		probs = append(probs, c18Problem{"hpack mosn-enc->mosn-dec: Close reports a truncated block", err.Error()})
	}
	if err := w.dmx.Close(); err != nil {
		probs = append(probs, c18Problem{"hpack xnet-enc->mosn-dec: Close reports a truncated block", err.Error()})
	}
	if err := w.dxm.Close(); err != nil {
		probs = append(probs, c18Problem{"hpack mosn-enc->xnet-dec: Close reports a truncated block", err.Error()})
	}
	return
}

func c18DynTab(obj interface{}) c18Table {
	return c18Tab(reflect.ValueOf(obj).Elem().FieldByName("dynTab"))
}

// step applies one event. Returns problems (only meaningful for the event under check) and an outcome tag.
func (w *c18World) step(e c18Ev) (probs []c18Problem, outcome string) {
	if e.Kind == "size" {
		probs = w.closeBlock()
		w.em.SetMaxDynamicTableSize(e.Size)
		w.ex.SetMaxDynamicTableSize(e.Size)
		return probs, fmt.Sprintf("size:%d", e.Size)
	}
	want := c18Field{e.Name, e.Value, e.Sensitive}
	w.bm.Reset()
	w.bx.Reset()
	if err := w.em.WriteField(HeaderField{Name: e.Name, Value: e.Value, Sensitive: e.Sensitive}); err != nil {
		probs = append(probs, c18Problem{"hpack mosn encoder: WriteField fails on a valid field", err.Error()})
		w.mosnBroken = true
	}
	if err := w.ex.WriteField(xhpack.HeaderField{Name: e.Name, Value: e.Value, Sensitive: e.Sensitive}); err != nil {
		w.refBroken = true
		return probs, "reference-encoder-error"
	}
	w.open = true
	bm := append([]byte(nil), w.bm.Bytes()...)
	bx := append([]byte(nil), w.bx.Bytes()...)
	outcome = c18Repr(bm) + "/" + c18Repr(bx)
	// reference pair first
	gxx, exx := w.feedX(w.dxx, bx)
	if p := c18Cmp("xnet-enc->xnet-dec", want, gxx, exx); p != nil {
		w.refBroken = true
		gmx, emx := w.feedM(w.dmx, bx)
		same := fmt.Sprint(gmx, emx) == fmt.Sprint(gxx, exx)
		return probs, fmt.Sprintf("reference-pair-rejects(%v) mosn-decoder-same=%v", exx, same)
	}
	gmx, emx := w.feedM(w.dmx, bx)
	if p := c18Cmp("xnet-enc->mosn-dec", want, gmx, emx); p != nil {
		probs = append(probs, *p)
		w.mosnBroken = true
	}
	gxm, exm := w.feedX(w.dxm, bm)
	if p := c18Cmp("mosn-enc->xnet-dec", want, gxm, exm); p != nil {
		probs = append(probs, *p)
		w.mosnBroken = true
	}
	gmm, emm := w.feedM(w.dmm, bm)
	if p := c18Cmp("mosn-enc->mosn-dec", want, gmm, emm); p != nil {
		probs = append(probs, *p)
		w.mosnBroken = true
	}
	if w.mosnBroken {
		return
	}
	// table synchronisation encoder <-> its decoders (pending updates are flushed now)
	tem, tex := c18DynTab(w.em).sync(), c18DynTab(w.ex).sync()
	tdmm, tdmx := c18DynTab(w.dmm).sync(), c18DynTab(w.dmx).sync()
	tdxm, tdxx := c18DynTab(w.dxm).sync(), c18DynTab(w.dxx).sync()
	if tex != tdxx {
		// the reference disagrees with itself: no expected value, stop here
		w.refBroken = true
		return probs, outcome + " reference-tables-out-of-sync"
	}
	if tem != tdxm {
		probs = append(probs, c18Problem{"hpack mosn-enc->xnet-dec: dynamic tables out of sync after a field", fmt.Sprintf("mosn encoder table %s, x/net decoder table %s", tem, tdxm)})
		w.mosnBroken = true
	}
	if tex != tdmx {
		probs = append(probs, c18Problem{"hpack xnet-enc->mosn-dec: dynamic tables out of sync after a field", fmt.Sprintf("x/net encoder table %s, mosn decoder table %s", tex, tdmx)})
		w.mosnBroken = true
	}
	if tem != tdmm {
		probs = append(probs, c18Problem{"hpack mosn-enc->mosn-dec: dynamic tables out of sync after a field", fmt.Sprintf("mosn encoder table %s, mosn decoder table %s", tem, tdmm)})
		w.mosnBroken = true
	}
	if tem != tex {
		outcome += " encoders-differ"
	}
	return
}

// c18Repr names the HPACK representations in one encoded field (vacuity guard / outcome).
func c18Repr(b []byte) string {
	var out []string
	for len(b) > 0 {
		c := b[0]
		switch {
		case c&0x80 != 0:
			return strings.Join(append(out, "indexed"), "+")
		case c&0xc0 == 0x40:
			t := "lit-inc"
			if c&0x3f != 0 {
				t += "-idxname"
			}
			return strings.Join(append(out, t+c18Huff(b, 6)), "+")
		case c&0xf0 == 0x00:
			t := "lit-noidx"
			if c&0x0f != 0 {
				t += "-idxname"
			}
			return strings.Join(append(out, t+c18Huff(b, 4)), "+")
		case c&0xf0 == 0x10:
			t := "lit-never"
			if c&0x0f != 0 {
				t += "-idxname"
			}
			return strings.Join(append(out, t+c18Huff(b, 4)), "+")
		case c&0xe0 == 0x20:
			out = append(out, "size-update")
			if c&0x1f == 0x1f { // multi-byte varint
				b = b[1:]
				for len(b) > 0 && b[0]&0x80 != 0 {
					b = b[1:]
				}
			}
			b = b[1:]
		default:
			return "?"
		}
	}
	return strings.Join(out, "+")
}

// c18Huff reports whether the last string literal of the representation is Huffman coded (outcome tag only).
func c18Huff(b []byte, prefix uint) string {
	mask := byte(1<<prefix - 1)
	i := 1
	if b[0]&mask == mask {
		for i < len(b) && b[i]&0x80 != 0 {
			i++
		}
		i++
	}
	h := ""
	for i < len(b) {
		if b[i]&0x80 != 0 {
			h = ",huff"
		} else {
			h = ",raw"
		}
		n := int(b[i] & 0x7f)
		i++
		if n == 0x7f {
			sh := uint(0)
			for i < len(b) {
				n += int(b[i]&0x7f) << sh
				sh += 7
				i++
				if b[i-1]&0x80 == 0 {
					break
				}
			}
		}
		i += n
	}
	return h
}

// c18Table is the reflection-read projection of a dynamicTable (MOSN's or x/net's: same field names).
type c18Table struct {
	ents                []string
	size, max, allowed  uint64
	byName, byNameValue []string
}

func c18Tab(dt reflect.Value) c18Table {
	var t c18Table
	tab := dt.FieldByName("table")
	ents := tab.FieldByName("ents")
	evict := tab.FieldByName("evictCount").Uint()
	for i := 0; i < ents.Len(); i++ {
		e := ents.Index(i)
		t.ents = append(t.ents, fmt.Sprintf("%q=%q/%v", e.FieldByName("Name").String(), e.FieldByName("Value").String(), e.FieldByName("Sensitive").Bool()))
	}
	t.size = dt.FieldByName("size").Uint()
	t.max = dt.FieldByName("maxSize").Uint()
	t.allowed = dt.FieldByName("allowedMaxSize").Uint()
	it := tab.FieldByName("byName").MapRange()
	for it.Next() {
		t.byName = append(t.byName, fmt.Sprintf("%q:%d", it.Key().String(), int64(it.Value().Uint())-int64(evict)))
	}
	sort.Strings(t.byName)
	it = tab.FieldByName("byNameValue").MapRange()
	for it.Next() {
		t.byNameValue = append(t.byNameValue, fmt.Sprintf("%q=%q:%d", it.Key().Field(0).String(), it.Key().Field(1).String(), int64(it.Value().Uint())-int64(evict)))
	}
	sort.Strings(t.byNameValue)
	return t
}

// sync is what an encoder and its decoder must agree on.
func (t c18Table) sync() string { return fmt.Sprintf("%v max=%d", t.ents, t.max) }

func (t c18Table) canon() string {
	return fmt.Sprintf("%v|%d|%d|%d|%v|%v", t.ents, t.size, t.max, t.allowed, t.byName, t.byNameValue)
}

func c18CanonEnc(e reflect.Value) string {
	e = e.Elem()
	return fmt.Sprintf("E{%s min=%d lim=%d upd=%v}", c18Tab(e.FieldByName("dynTab")).canon(), e.FieldByName("minSize").Uint(), e.FieldByName("maxSizeLimit").Uint(), e.FieldByName("tableSizeUpdate").Bool())
}

func c18CanonDec(d reflect.Value) string {
	d = d.Elem()
	sb := d.FieldByName("saveBuf")
	saved := sb.FieldByName("buf").Len() - int(sb.FieldByName("off").Int())
	return fmt.Sprintf("D{%s first=%v saved=%d emit=%v maxstr=%d}", c18Tab(d.FieldByName("dynTab")).canon(), d.FieldByName("firstField").Bool(), saved, d.FieldByName("emitEnabled").Bool(), d.FieldByName("maxStrLen").Int())
}

func (w *c18World) canon() string {
	return strings.Join([]string{
		c18CanonEnc(reflect.ValueOf(w.em)), c18CanonEnc(reflect.ValueOf(w.ex)),
		c18CanonDec(reflect.ValueOf(w.dmm)), c18CanonDec(reflect.ValueOf(w.dmx)),
		c18CanonDec(reflect.ValueOf(w.dxm)), c18CanonDec(reflect.ValueOf(w.dxx)),
		fmt.Sprintf("open=%v", w.open)}, "\n")
}

type c18StepResult struct {
	canon    string
	terminal bool
	harness  string
}

// c18Transition replays c.History[:n-1] on a fresh world, applies and checks the last event.
func c18Transition(p *vreport.Part, c c18Case) (res c18StepResult) {
	defer func() {
		if r := recover(); r != nil {
			res.terminal = true
			p.Violation("hpack: panic while encoding/decoding a valid header list", fmt.Sprintf("mode %s history %s: panic: %v", c.Mode, c18Hist(c.History), r), c)
		}
	}()
	for _, i := range c.History {
		if i < 0 || i >= len(c18Events) {
			res.harness = "bad event index in history"
			res.terminal = true
			return
		}
	}
	c.Events = c18Hist(c.History)
	w := c18NewWorld(c.Mode)
	n := len(c.History)
	for k, i := range c.History {
		probs, outcome := w.step(c18Events[i])
		if k < n-1 {
			if len(probs) > 0 || w.refBroken || w.mosnBroken {
				// the prefix reached a non-terminal state when it was explored: the replay must agree
				res.harness = fmt.Sprintf("replay of the prefix of %s diverged at step %d: %v", c.Events, k, probs)
				res.terminal = true
				return
			}
			continue
		}
		p.Outcome(outcome)
		for _, pr := range probs {
			p.Violation(pr.key, fmt.Sprintf("mode %s history %s: %s", c.Mode, c.Events, pr.detail), c)
		}
		if strings.Contains(outcome, "mosn-decoder-same=false") {
			p.Count("reference_pair_rejects_but_mosn_decoder_differs(not compared)", 1)
		}
		if strings.Contains(outcome, "encoders-differ") {
			p.Count("encoder_tables_differ", 1)
		}
	}
	if !w.refBroken && !w.mosnBroken {
		res.canon = w.canon()
		// the block open in this state must be closable (on this throw-away copy)
		for _, pr := range w.closeBlock() {
			p.Violation(pr.key, fmt.Sprintf("mode %s history %s then end of block: %s", c.Mode, c.Events, pr.detail), c)
			w.mosnBroken = true
		}
	}
	if w.refBroken {
		p.Count("reference_pair_rejects", 1)
	}
	res.terminal = w.refBroken || w.mosnBroken
	return
}

func c18Hist(h []int) string {
	var s []string
	for _, i := range h {
		s = append(s, c18Events[i].String())
	}
	return "[" + strings.Join(s, " ") + "]"
}

func TestVerifC18HpackBFS(t *testing.T) {
	p := vreport.Begin("C18", "hpack-bfs", 12*time.Minute)
	depth := vreport.Pick(5, 8)
	modes := []string{"A", "B", "C"}
	var last c18StepResult
	maxDepth := 0
	complete := vreport.Run(p,
		func(yield func(c18Case) bool) {
			for _, mode := range modes {
				seen := map[string]bool{}
				w0 := c18NewWorld(mode)
				seen[w0.canon()] = true
				p.AddStates(1)
				frontier := [][]int{{}}
				for d := 1; d <= depth && len(frontier) > 0; d++ {
					var next [][]int
					for _, h := range frontier {
						for e := range c18Events {
							hist := append(append([]int(nil), h...), e)
							if !yield(c18Case{Mode: mode, History: hist}) {
								return
							}
							p.AddTransitions(1)
							p.AddTraces(1)
							if last.harness != "" {
								vreport.HarnessError("C18", "hpack-bfs", last.harness)
								return
							}
							if last.terminal {
								p.Count("terminal_states", 1)
								continue
							}
							if !seen[last.canon] {
								seen[last.canon] = true
								p.AddStates(1)
								next = append(next, hist)
								if d > maxDepth {
									maxDepth = d
								}
							}
						}
					}
					frontier = next
				}
				p.Note("unexpanded_frontier_at_bound_mode_"+mode, len(frontier))
			}
		},
		func(p *vreport.Part, c c18Case) {
			last = c18Transition(p, c)
			if last.canon != "" {
				p.Distinct(c.Mode + "\n" + last.canon)
			}
			if p.WantSample() {
				p.Sample(map[string]interface{}{"mode": c.Mode, "history": c18Hist(c.History)})
			}
		})
	p.Note("max_depth_with_new_state", maxDepth)
	p.Note("events", len(c18Events))
	p.End(complete, fmt.Sprintf("all event histories of depth <= %d over %d events (7 fields: static match, repeated name, 40-byte huffman and 40-byte raw value, sensitive, empty value; table size 0/34/64/68/4096 - 34 and 68 are filled exactly by one / two 34-byte entries), 3 block modes (block per field / block per run / byte-wise feed), directions mosn->xnet, xnet->mosn, mosn->mosn", depth, len(c18Events)),
		"BFS with canonical-state de-duplication over the product of both encoders and four decoders; a transition replays the history on fresh objects plus one event; distinct = canonical product states; outcome = HPACK representations chosen by the two encoders; histories on which the reference pair itself fails (two consecutive size updates on a non-empty table) are enumerated, not compared")
}

// ---------------------------------------------------------------------------
// Huffman coding: every 1- and 2-byte string (all 65792), both directions.

type c18HuffCase struct {
	S []byte `json:"s"`
}

func TestVerifC18Huffman(t *testing.T) {
	p := vreport.Begin("C18", "hpack-huffman", 3*time.Minute)
	complete := vreport.Run(p,
		func(yield func(c18HuffCase) bool) {
			for a := 0; a < 256; a++ {
				if !yield(c18HuffCase{[]byte{byte(a)}}) {
					return
				}
			}
			for a := 0; a < 256; a++ {
				for b := 0; b < 256; b++ {
					if !yield(c18HuffCase{[]byte{byte(a), byte(b)}}) {
						return
					}
				}
			}
			// all 3-byte strings over symbols with the shortest and the longest codes (bit-alignment carries)
			syms := []byte{'0', 'a', ' ', '%', 'X', '!', '\x00', '\x16', '\xff', '\n'}
			for _, a := range syms {
				for _, b := range syms {
					for _, c := range syms {
						if !yield(c18HuffCase{[]byte{a, b, c}}) {
							return
						}
					}
				}
			}
		},
		func(p *vreport.Part, c c18HuffCase) {
			defer func() {
				if r := recover(); r != nil {
					p.Violation("hpack huffman: panic", fmt.Sprintf("string %q: %v", c.S, r), c)
				}
			}()
			s := string(c.S)
			m := AppendHuffmanString(nil, s)
			x := xhpack.AppendHuffmanString(nil, s)
			p.Outcome(fmt.Sprintf("len%d/%d", len(m), len(x)))
			p.Distinct(s)
			if uint64(len(m)) != HuffmanEncodeLength(s) {
				p.Violation("hpack huffman: mosn HuffmanEncodeLength disagrees with the encoded length (the string length prefix would be wrong)", fmt.Sprintf("%q: len %d, announced %d", s, len(m), HuffmanEncodeLength(s)), c)
			}
			if got, err := xhpack.HuffmanDecodeToString(m); err != nil || got != s {
				p.Violation("hpack huffman mosn-enc->xnet-dec: decodes differently", fmt.Sprintf("%q -> % x -> %q, %v", s, m, got, err), c)
			}
			if got, err := HuffmanDecodeToString(x); err != nil || got != s {
				p.Violation("hpack huffman xnet-enc->mosn-dec: decodes differently", fmt.Sprintf("%q -> % x -> %q, %v", s, x, got, err), c)
			}
			if got, err := HuffmanDecodeToString(m); err != nil || got != s {
				p.Violation("hpack huffman mosn-enc->mosn-dec: decodes differently", fmt.Sprintf("%q -> % x -> %q, %v", s, m, got, err), c)
			}
		})
	p.End(complete, "every 1-byte and 2-byte string (65792) and every 3-byte string over 10 symbols with extreme code lengths",
		"cartesian product; MOSN AppendHuffmanString decoded by x/net, x/net's by MOSN, MOSN's by MOSN; distinct = strings")
}
