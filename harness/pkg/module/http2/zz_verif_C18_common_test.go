//go:build verif

package http2

// Shared pieces of the C18 harnesses of package module/http2: a recording fake
// api.Connection, a fused IoBuffer (turns a non-terminating read loop into a
// recoverable panic) and the projections of parsed frames (MOSN's and x/net's)
// into one comparable text form.

import (
	"fmt"
	"strings"

	xhttp2 "golang.org/x/net/http2"
	"mosn.io/api"
	"mosn.io/pkg/buffer"
)

// c18Conn is the fakeconn: it records every Write (one entry per buffer, in
// order). Everything else of api.Connection is absent (nil embedded interface):
// a call of any other method is a nil-pointer panic, i.e. a loud harness error.
type c18Conn struct {
	api.Connection
	writes  [][]byte
	onWrite func(b []byte)
	state   api.ConnState
}

func (c *c18Conn) Write(bufs ...buffer.IoBuffer) error {
	for _, b := range bufs {
		cp := append([]byte(nil), b.Bytes()...)
		c.writes = append(c.writes, cp)
		if c.onWrite != nil {
			c.onWrite(cp)
		}
	}
	return nil
}

func (c *c18Conn) State() api.ConnState { return c.state }

func (c *c18Conn) all() []byte {
	var out []byte
	for _, w := range c.writes {
		out = append(out, w...)
	}
	return out
}

func newC18Conn() *c18Conn { return &c18Conn{state: api.ConnActive} }

type c18FuseBlown struct{}

// c18FuseBuf wraps the read buffer handed to MFramer.ReadFrame. ReadFrame calls
// Len() at least once per frame header it looks at, so a legitimate parse of the
// <=3 frame groups of this harness needs a few dozen calls; after c18FuseLimit
// calls within one ReadFrame the fuse panics (recovered by the harness and
// reported as non-termination). Never a wall-clock criterion.
type c18FuseBuf struct {
	buffer.IoBuffer
	calls int
}

const c18FuseLimit = 20000

func (b *c18FuseBuf) Len() int {
	b.calls++
	if b.calls > c18FuseLimit {
		panic(c18FuseBlown{})
	}
	return b.IoBuffer.Len()
}

func c18Hdr(typ uint8, flags uint8, stream, length uint32) string {
	return fmt.Sprintf("type=%d flags=%#02x stream=%d len=%d ", typ, flags, stream, length)
}

func c18Prio(dep uint32, excl bool, weight uint8) string {
	return fmt.Sprintf("prio{dep=%d excl=%v w=%d}", dep, excl, weight)
}

// c18ProjM projects a frame parsed by MOSN. Must be called before the next read
// (payload slices alias the read buffer).
func c18ProjM(f Frame) string {
	h := f.Header()
	s := c18Hdr(uint8(h.Type), uint8(h.Flags), h.StreamID, h.Length)
	switch f := f.(type) {
	case *DataFrame:
		s += fmt.Sprintf("DATA %q end=%v", f.Data(), f.StreamEnded())
	case *MetaHeadersFrame:
		var fs []string
		for _, hf := range f.Fields {
			fs = append(fs, fmt.Sprintf("%q=%q/%v", hf.Name, hf.Value, hf.Sensitive))
		}
		s += fmt.Sprintf("METAHEADERS %s hasprio=%v endstream=%v endheaders=%v truncated=%v fields=[%s]",
			c18Prio(f.Priority.StreamDep, f.Priority.Exclusive, f.Priority.Weight), f.HasPriority(), f.StreamEnded(), f.HeadersEnded(), f.Truncated, strings.Join(fs, " "))
	case *HeadersFrame:
		s += fmt.Sprintf("HEADERS %s hasprio=%v endstream=%v endheaders=%v frag=%x",
			c18Prio(f.Priority.StreamDep, f.Priority.Exclusive, f.Priority.Weight), f.HasPriority(), f.StreamEnded(), f.HeadersEnded(), f.HeaderBlockFragment())
	case *ContinuationFrame:
		s += fmt.Sprintf("CONTINUATION endheaders=%v frag=%x", f.HeadersEnded(), f.HeaderBlockFragment())
	case *SettingsFrame:
		var ss []string
		f.ForeachSetting(func(st Setting) error { ss = append(ss, fmt.Sprintf("%d=%d", uint16(st.ID), st.Val)); return nil })
		s += fmt.Sprintf("SETTINGS ack=%v [%s]", f.IsAck(), strings.Join(ss, " "))
	case *PingFrame:
		s += fmt.Sprintf("PING ack=%v %x", f.IsAck(), f.Data[:])
	case *RSTStreamFrame:
		s += fmt.Sprintf("RST code=%d", uint32(f.ErrCode))
	case *WindowUpdateFrame:
		s += fmt.Sprintf("WINDOW_UPDATE incr=%d", f.Increment)
	case *GoAwayFrame:
		s += fmt.Sprintf("GOAWAY last=%d code=%d debug=%q", f.LastStreamID, uint32(f.ErrCode), f.DebugData())
	case *PriorityFrame:
		s += "PRIORITY " + c18Prio(f.StreamDep, f.Exclusive, f.Weight)
	default:
		s += fmt.Sprintf("OTHER %T", f)
	}
	return s
}

// c18ProjX projects a frame parsed by x/net in exactly the same form.
func c18ProjX(f xhttp2.Frame) string {
	h := f.Header()
	s := c18Hdr(uint8(h.Type), uint8(h.Flags), h.StreamID, h.Length)
	switch f := f.(type) {
	case *xhttp2.DataFrame:
		s += fmt.Sprintf("DATA %q end=%v", f.Data(), f.StreamEnded())
	case *xhttp2.MetaHeadersFrame:
		var fs []string
		for _, hf := range f.Fields {
			fs = append(fs, fmt.Sprintf("%q=%q/%v", hf.Name, hf.Value, hf.Sensitive))
		}
		s += fmt.Sprintf("METAHEADERS %s hasprio=%v endstream=%v endheaders=%v truncated=%v fields=[%s]",
			c18Prio(f.Priority.StreamDep, f.Priority.Exclusive, f.Priority.Weight), f.HasPriority(), f.StreamEnded(), f.HeadersEnded(), f.Truncated, strings.Join(fs, " "))
	case *xhttp2.HeadersFrame:
		s += fmt.Sprintf("HEADERS %s hasprio=%v endstream=%v endheaders=%v frag=%x",
			c18Prio(f.Priority.StreamDep, f.Priority.Exclusive, f.Priority.Weight), f.HasPriority(), f.StreamEnded(), f.HeadersEnded(), f.HeaderBlockFragment())
	case *xhttp2.ContinuationFrame:
		s += fmt.Sprintf("CONTINUATION endheaders=%v frag=%x", f.HeadersEnded(), f.HeaderBlockFragment())
	case *xhttp2.SettingsFrame:
		var ss []string
		f.ForeachSetting(func(st xhttp2.Setting) error { ss = append(ss, fmt.Sprintf("%d=%d", uint16(st.ID), st.Val)); return nil })
		s += fmt.Sprintf("SETTINGS ack=%v [%s]", f.IsAck(), strings.Join(ss, " "))
	case *xhttp2.PingFrame:
		s += fmt.Sprintf("PING ack=%v %x", f.IsAck(), f.Data[:])
	case *xhttp2.RSTStreamFrame:
		s += fmt.Sprintf("RST code=%d", uint32(f.ErrCode))
	case *xhttp2.WindowUpdateFrame:
		s += fmt.Sprintf("WINDOW_UPDATE incr=%d", f.Increment)
	case *xhttp2.GoAwayFrame:
		s += fmt.Sprintf("GOAWAY last=%d code=%d debug=%q", f.LastStreamID, uint32(f.ErrCode), f.DebugData())
	case *xhttp2.PriorityFrame:
		s += "PRIORITY " + c18Prio(f.StreamDep, f.Exclusive, f.Weight)
	default:
		s += fmt.Sprintf("OTHER %T", f)
	}
	return s
}

// c18Kind extracts the frame kind word of a projection (for finding keys).
func c18Kind(proj string) string {
	i := strings.Index(proj, "len=")
	if i < 0 {
		return "?"
	}
	rest := proj[i:]
	j := strings.IndexByte(rest, ' ')
	if j < 0 {
		return "?"
	}
	rest = rest[j+1:]
	if k := strings.IndexByte(rest, ' '); k >= 0 {
		return rest[:k]
	}
	return rest
}
