//go:build verif

package http2

// Shared pieces of the C18 harnesses of package module/http2: a recording fake
// api.Connection, a fused IoBuffer (turns a non-terminating read loop into a
// recoverable panic) and the projections of parsed frames (MOSN's and x/net's)
// into one comparable text form.

import (
	"fmt"
	"strconv"
	"strings"

	xhttp2 "golang.org/x/net/http2"
	"mosn.io/api"
	"mosn.io/mosn/pkg/verifrt/vrt"
	"mosn.io/pkg/buffer"
)

// c18Conn is the fakeconn: it records every Write (one entry per buffer, in
// order). Everything else of api.Connection is absent (nil embedded interface):
// a call of any other method is a nil-pointer panic, i.e. a loud harness error.
type c18Conn struct {
	api.Connection
	writes  [][]byte
	onWrite func(b []byte)
	state   api.ConnState
	// yield: every Write call is a scheduling point of the E1 scheduler (the real
	// connection takes locks / hands the buffer to a write loop there)
	yield bool
}

func (c *c18Conn) Write(bufs ...buffer.IoBuffer) error {
	if c.yield {
		vrt.Yield()
	}
	for _, b := range bufs {
		cp := append([]byte(nil), b.Bytes()...)
		c.writes = append(c.writes, cp)
		if c.onWrite != nil {
			c.onWrite(cp)
		}
	}
	return nil
}

func (c *c18Conn) State() api.ConnState { return c.state }

func (c *c18Conn) all() []byte {
	var out []byte
	for _, w := range c.writes {
		out = append(out, w...)
	}
	return out
}

func newC18Conn() *c18Conn { return &c18Conn{state: api.ConnActive} }

type c18FuseBlown struct{}

// c18FuseBuf wraps the read buffer handed to MFramer.ReadFrame. ReadFrame calls
// Len() at least once per frame header it looks at, so a legitimate parse of the
// <=3 frame groups of this harness needs a few dozen calls; after c18FuseLimit
// calls within one ReadFrame the fuse panics (recovered by the harness and
// reported as non-termination). Never a wall-clock criterion.
type c18FuseBuf struct {
	buffer.IoBuffer
	calls int
}

const c18FuseLimit = 20000

func (b *c18FuseBuf) Len() int {
	b.calls++
	if b.calls > c18FuseLimit {
		panic(c18FuseBlown{})
	}
	return b.IoBuffer.Len()
}

// c18B builds the comparable text form of a parsed frame without fmt (this runs
// once per frame per segmentation, tens of millions of times). Both projections
// below use the same builder calls in the same order, so equal frames give
// equal text.
type c18B struct{ b []byte }

func (p *c18B) s(x string) *c18B  { p.b = append(p.b, x...); return p }
func (p *c18B) u(x uint64) *c18B  { p.b = strconv.AppendUint(p.b, x, 10); return p }
func (p *c18B) t(x bool) *c18B    { p.b = strconv.AppendBool(p.b, x); return p }
func (p *c18B) q(x string) *c18B  { p.b = strconv.AppendQuote(p.b, x); return p }
func (p *c18B) x(x []byte) *c18B {
	const hexd = "0123456789abcdef"
	for _, c := range x {
		p.b = append(p.b, hexd[c>>4], hexd[c&15])
	}
	return p
}
func (p *c18B) hdr(typ, flags uint8, stream, length uint32) *c18B {
	return p.s("type=").u(uint64(typ)).s(" flags=").u(uint64(flags)).s(" stream=").u(uint64(stream)).s(" len=").u(uint64(length)).s(" ")
}
func (p *c18B) prio(dep uint32, excl bool, weight uint8) *c18B {
	return p.s("prio{dep=").u(uint64(dep)).s(" excl=").t(excl).s(" w=").u(uint64(weight)).s("}")
}
func (p *c18B) hflags(hasprio, endstream, endheaders bool) *c18B {
	return p.s(" hasprio=").t(hasprio).s(" endstream=").t(endstream).s(" endheaders=").t(endheaders)
}
func (p *c18B) field(name, value string, sens bool) *c18B {
	return p.s(" ").q(name).s("=").q(value).s("/").t(sens)
}

// c18ProjM projects a frame parsed by MOSN into p (reset first). Must be called
// before the next read (payload slices alias the read buffer).
func c18ProjM(p *c18B, f Frame) string {
	c18ProjMInto(p, f)
	return string(p.b)
}

func c18ProjMInto(p *c18B, f Frame) {
	p.b = p.b[:0]
	h := f.Header()
	p.hdr(uint8(h.Type), uint8(h.Flags), h.StreamID, h.Length)
	switch f := f.(type) {
	case *DataFrame:
		p.s("DATA ").x(f.Data()).s(" end=").t(f.StreamEnded())
	case *MetaHeadersFrame:
		p.s("METAHEADERS ").prio(f.Priority.StreamDep, f.Priority.Exclusive, f.Priority.Weight).hflags(f.HasPriority(), f.StreamEnded(), f.HeadersEnded()).s(" truncated=").t(f.Truncated).s(" fields=[")
		for _, hf := range f.Fields {
			p.field(hf.Name, hf.Value, hf.Sensitive)
		}
		p.s("]")
	case *HeadersFrame:
		p.s("HEADERS ").prio(f.Priority.StreamDep, f.Priority.Exclusive, f.Priority.Weight).hflags(f.HasPriority(), f.StreamEnded(), f.HeadersEnded()).s(" frag=").x(f.HeaderBlockFragment())
	case *ContinuationFrame:
		p.s("CONTINUATION endheaders=").t(f.HeadersEnded()).s(" frag=").x(f.HeaderBlockFragment())
	case *SettingsFrame:
		p.s("SETTINGS ack=").t(f.IsAck()).s(" [")
		f.ForeachSetting(func(st Setting) error { p.s(" ").u(uint64(st.ID)).s("=").u(uint64(st.Val)); return nil })
		p.s("]")
	case *PingFrame:
		p.s("PING ack=").t(f.IsAck()).s(" ").x(f.Data[:])
	case *RSTStreamFrame:
		p.s("RST code=").u(uint64(f.ErrCode))
	case *WindowUpdateFrame:
		p.s("WINDOW_UPDATE incr=").u(uint64(f.Increment))
	case *GoAwayFrame:
		p.s("GOAWAY last=").u(uint64(f.LastStreamID)).s(" code=").u(uint64(f.ErrCode)).s(" debug=").x(f.DebugData())
	case *PriorityFrame:
		p.s("PRIORITY ").prio(f.StreamDep, f.Exclusive, f.Weight)
	default:
		p.s(fmt.Sprintf("OTHER %T", f))
	}
}

// c18ProjX projects a frame parsed by x/net in exactly the same form.
func c18ProjX(p *c18B, f xhttp2.Frame) string {
	p.b = p.b[:0]
	h := f.Header()
	p.hdr(uint8(h.Type), uint8(h.Flags), h.StreamID, h.Length)
	switch f := f.(type) {
	case *xhttp2.DataFrame:
		p.s("DATA ").x(f.Data()).s(" end=").t(f.StreamEnded())
	case *xhttp2.MetaHeadersFrame:
		p.s("METAHEADERS ").prio(f.Priority.StreamDep, f.Priority.Exclusive, f.Priority.Weight).hflags(f.HasPriority(), f.StreamEnded(), f.HeadersEnded()).s(" truncated=").t(f.Truncated).s(" fields=[")
		for _, hf := range f.Fields {
			p.field(hf.Name, hf.Value, hf.Sensitive)
		}
		p.s("]")
	case *xhttp2.HeadersFrame:
		p.s("HEADERS ").prio(f.Priority.StreamDep, f.Priority.Exclusive, f.Priority.Weight).hflags(f.HasPriority(), f.StreamEnded(), f.HeadersEnded()).s(" frag=").x(f.HeaderBlockFragment())
	case *xhttp2.ContinuationFrame:
		p.s("CONTINUATION endheaders=").t(f.HeadersEnded()).s(" frag=").x(f.HeaderBlockFragment())
	case *xhttp2.SettingsFrame:
		p.s("SETTINGS ack=").t(f.IsAck()).s(" [")
		f.ForeachSetting(func(st xhttp2.Setting) error { p.s(" ").u(uint64(st.ID)).s("=").u(uint64(st.Val)); return nil })
		p.s("]")
	case *xhttp2.PingFrame:
		p.s("PING ack=").t(f.IsAck()).s(" ").x(f.Data[:])
	case *xhttp2.RSTStreamFrame:
		p.s("RST code=").u(uint64(f.ErrCode))
	case *xhttp2.WindowUpdateFrame:
		p.s("WINDOW_UPDATE incr=").u(uint64(f.Increment))
	case *xhttp2.GoAwayFrame:
		p.s("GOAWAY last=").u(uint64(f.LastStreamID)).s(" code=").u(uint64(f.ErrCode)).s(" debug=").x(f.DebugData())
	case *xhttp2.PriorityFrame:
		p.s("PRIORITY ").prio(f.StreamDep, f.Exclusive, f.Weight)
	default:
		p.s(fmt.Sprintf("OTHER %T", f))
	}
	return string(p.b)
}

// c18Kind extracts the frame kind word of a projection (for finding keys).
func c18Kind(proj string) string {
	i := strings.Index(proj, "len=")
	if i < 0 {
		return "?"
	}
	rest := proj[i:]
	j := strings.IndexByte(rest, ' ')
	if j < 0 {
		return "?"
	}
	rest = rest[j+1:]
	if k := strings.IndexByte(rest, ' '); k >= 0 {
		return rest[:k]
	}
	return rest
}

// c18ProjMEq projects f into pb and reports whether it equals want (no allocation).
func c18ProjMEq(pb *c18B, f Frame, want string) bool {
	c18ProjMInto(pb, f)
	return string(pb.b) == want
}
