//go:build verif

package http2

// C08 unit "h2framer": malformed HTTP/2 frames are contained by MFramer.ReadFrame
// (pkg/module/http2/mhttp2.go + the frame parsers of frame.go), configured exactly
// as NewServerConn / NewClientConn configure it (HPACK decoder for meta headers,
// MaxHeaderListSize, max read frame size 1 MiB).
//
// Inputs: a frame alphabet written by golang.org/x/net/http2's Framer (the
// reference peer) with header blocks from x/net's hpack encoder; every
// frame-header field corruption (length, type, flags, stream id, pad length),
// truncation and byte set. The harness calls ReadFrame(ctx, buf, 0) the way
// protocol/http2's codec does, repeatedly until the buffer is empty, ErrAGAIN or
// an error, on a fresh framer per input.

import (
	"bytes"
	"context"
	"encoding/hex"
	"fmt"
	"strings"
	"testing"
	"time"

	xh2 "golang.org/x/net/http2"
	xhpack "golang.org/x/net/http2/hpack"
	"mosn.io/pkg/buffer"

	"mosn.io/mosn/pkg/verifrt/c08"
	"mosn.io/mosn/pkg/verifrt/vreport"
)

func c08DumpH2Frame(f Frame) string {
	h := f.Header()
	var sb strings.Builder
	fmt.Fprintf(&sb, "%T{len=%d type=%d flags=%#x sid=%d", f, h.Length, h.Type, h.Flags, h.StreamID)
	switch f := f.(type) {
	case *DataFrame:
		fmt.Fprintf(&sb, " data=%x", f.Data())
	case *MetaHeadersFrame:
		fmt.Fprintf(&sb, " prio=%+v trunc=%v fields=[", f.Priority, f.Truncated)
		for _, hf := range f.Fields {
			fmt.Fprintf(&sb, "%q:%q:%v,", hf.Name, hf.Value, hf.Sensitive)
		}
		sb.WriteString("]")
	case *HeadersFrame:
		fmt.Fprintf(&sb, " prio=%+v frag=%x", f.Priority, f.HeaderBlockFragment())
	case *PriorityFrame:
		fmt.Fprintf(&sb, " prio=%+v", f.PriorityParam)
	case *RSTStreamFrame:
		fmt.Fprintf(&sb, " code=%d", f.ErrCode)
	case *SettingsFrame:
		for i := 0; i < f.NumSettings(); i++ {
			s := f.Setting(i)
			fmt.Fprintf(&sb, " %d=%d", s.ID, s.Val)
		}
	case *PushPromiseFrame:
		fmt.Fprintf(&sb, " promise=%d frag=%x", f.PromiseID, f.HeaderBlockFragment())
	case *PingFrame:
		fmt.Fprintf(&sb, " data=%x", f.Data)
	case *GoAwayFrame:
		fmt.Fprintf(&sb, " last=%d code=%d debug=%x", f.LastStreamID, f.ErrCode, f.DebugData())
	case *WindowUpdateFrame:
		fmt.Fprintf(&sb, " incr=%d", f.Increment)
	case *ContinuationFrame:
		fmt.Fprintf(&sb, " frag=%x", f.HeaderBlockFragment())
	case *UnknownFrame:
		fmt.Fprintf(&sb, " payload=%x", f.Payload())
	}
	sb.WriteString("}")
	return sb.String()
}

// NewServerConn and NewClientConn configure their MFramer identically (hpack decoder with the initial
// table size, MaxHeaderListSize = http.DefaultMaxHeaderBytes, max read frame size 1 MiB).
func c08NewFramer() *MFramer { return NewServerConn(nil).Framer }

// c08ExecH2 feeds the (optional) valid prelude from its own buffer, then the input.
func c08ExecH2(c c08.Case, buf []byte) string {
	fr := c08NewFramer()
	ctx := context.Background()
	if pre := c.Prelude(); len(pre) > 0 {
		pb := buffer.NewIoBufferBytes(append([]byte(nil), pre...))
		for pb.Len() > 0 {
			if _, _, err := fr.ReadFrame(ctx, pb, 0); err != nil {
				return "prelude-error " + err.Error()
			}
		}
	}
	data := buffer.NewIoBufferBytes(buf)
	var sb strings.Builder
	kind := "frame"
	maxIter := len(buf)/9 + 2
	for i := 0; i < maxIter && data.Len() > 0; i++ {
		before := data.Len()
		f, n, err := fr.ReadFrame(ctx, data, 0)
		if err == ErrAGAIN {
			kind = "more"
			break
		}
		if err != nil {
			kind = "error"
			fmt.Fprintf(&sb, " err=%T:%s", err, err.Error())
			break
		}
		fmt.Fprintf(&sb, " %s n=%d", c08DumpH2Frame(f), n)
		if data.Len() == before {
			// a frame that consumes nothing: the caller (stream/http2 Dispatch) would see it again
			// forever; not this oracle's business, stop here
			sb.WriteString(" (nothing consumed)")
			break
		}
	}
	return fmt.Sprintf("%s rest=%d%s", kind, data.Len(), sb.String())
}

// ---------------------------------------------------------------- alphabet

type c08h2Frame struct {
	name string
	b    []byte
	// offsets of the 9-byte frame headers inside b, and of pad-length bytes
	hdrs []int
	pads []int
}

func c08HeaderBlock(fields ...[2]string) []byte {
	var bb bytes.Buffer
	enc := xhpack.NewEncoder(&bb)
	for _, f := range fields {
		enc.WriteField(xhpack.HeaderField{Name: f[0], Value: f[1]})
	}
	return bb.Bytes()
}

func c08H2Alphabet() []c08h2Frame {
	req := c08HeaderBlock([2]string{":method", "GET"}, [2]string{":scheme", "http"}, [2]string{":path", "/a"}, [2]string{":authority", "example.com"}, [2]string{"x-key", "value"})
	mk := func(name string, write func(fr *xh2.Framer)) c08h2Frame {
		var bb bytes.Buffer
		fr := xh2.NewFramer(&bb, nil)
		fr.AllowIllegalWrites = true
		write(fr)
		out := c08h2Frame{name: name, b: append([]byte(nil), bb.Bytes()...)}
		for off := 0; off+9 <= len(out.b); {
			out.hdrs = append(out.hdrs, off)
			l := int(out.b[off])<<16 | int(out.b[off+1])<<8 | int(out.b[off+2])
			if out.b[off+4]&0x08 != 0 && (out.b[off+3] == 0 || out.b[off+3] == 1 || out.b[off+3] == 5) {
				out.pads = append(out.pads, off+9)
			}
			off += 9 + l
		}
		return out
	}
	third := len(req) / 3
	// the CONTINUATION sequences come last (see the finding about MFramer.readMetaFrame: each of their
	// corruptions that keeps a CONTINUATION without END_HEADERS costs one child process)
	return []c08h2Frame{
		mk("DATA", func(fr *xh2.Framer) { fr.WriteData(1, false, []byte("hello")) }),
		mk("DATA end_stream pad 1", func(fr *xh2.Framer) { fr.WriteDataPadded(1, true, []byte("hello"), make([]byte, 1)) }),
		mk("DATA pad 255", func(fr *xh2.Framer) { fr.WriteDataPadded(3, false, []byte("x"), make([]byte, 255)) }),
		mk("HEADERS end_headers", func(fr *xh2.Framer) {
			fr.WriteHeaders(xh2.HeadersFrameParam{StreamID: 1, BlockFragment: req, EndHeaders: true})
		}),
		mk("HEADERS end_stream priority pad", func(fr *xh2.Framer) {
			fr.WriteHeaders(xh2.HeadersFrameParam{StreamID: 3, BlockFragment: req, EndHeaders: true, EndStream: true, PadLength: 4,
				Priority: xh2.PriorityParam{StreamDep: 1, Exclusive: true, Weight: 200}})
		}),
		mk("SETTINGS", func(fr *xh2.Framer) {
			fr.WriteSettings(xh2.Setting{ID: xh2.SettingMaxFrameSize, Val: 1 << 20}, xh2.Setting{ID: xh2.SettingInitialWindowSize, Val: 65535},
				xh2.Setting{ID: xh2.SettingHeaderTableSize, Val: 4096})
		}),
		mk("SETTINGS ack", func(fr *xh2.Framer) { fr.WriteSettingsAck() }),
		mk("PING", func(fr *xh2.Framer) { fr.WritePing(false, [8]byte{1, 2, 3, 4, 5, 6, 7, 8}) }),
		mk("RST_STREAM", func(fr *xh2.Framer) { fr.WriteRSTStream(1, xh2.ErrCodeCancel) }),
		mk("WINDOW_UPDATE", func(fr *xh2.Framer) { fr.WriteWindowUpdate(1, 1000) }),
		mk("GOAWAY", func(fr *xh2.Framer) { fr.WriteGoAway(5, xh2.ErrCodeEnhanceYourCalm, []byte("debug")) }),
		mk("PRIORITY", func(fr *xh2.Framer) {
			fr.WritePriority(5, xh2.PriorityParam{StreamDep: 3, Exclusive: false, Weight: 16})
		}),
		mk("PUSH_PROMISE", func(fr *xh2.Framer) {
			fr.WritePushPromise(xh2.PushPromiseParam{StreamID: 1, PromiseID: 2, BlockFragment: req, EndHeaders: true})
		}),
		mk("unknown type 0x20", func(fr *xh2.Framer) { fr.WriteRawFrame(0x20, 0x5, 7, []byte("opaque")) }),
		mk("DATA + DATA", func(fr *xh2.Framer) { fr.WriteData(1, false, []byte("a")); fr.WriteData(1, true, []byte("b")) }),
		mk("HEADERS + CONTINUATION", func(fr *xh2.Framer) {
			fr.WriteHeaders(xh2.HeadersFrameParam{StreamID: 1, BlockFragment: req[:third], EndHeaders: false})
			fr.WriteContinuation(1, true, req[third:])
		}),
		mk("HEADERS + 2 CONTINUATION", func(fr *xh2.Framer) {
			fr.WriteHeaders(xh2.HeadersFrameParam{StreamID: 1, BlockFragment: req[:third], EndHeaders: false})
			fr.WriteContinuation(1, false, req[third:2*third])
			fr.WriteContinuation(1, true, req[2*third:])
		}),
	}
}

func c08H2Gen(target string) func(yield func(c08.Case) bool) {
	return func(yield func(c08.Case) bool) {
		if !c08.ShortStrings(target, [][]byte{{0x00}}, yield) {
			return
		}
		for _, af := range c08H2Alphabet() {
			f := c08.Frame{Name: af.name, Bytes: af.b}
			for i, off := range af.hdrs {
				f.Fields = append(f.Fields, c08.Field{Name: fmt.Sprintf("frame[%d].length", i), Off: off, Width: 3})
				l := int(af.b[off])<<16 | int(af.b[off+1])<<8 | int(af.b[off+2])
				f.Blocks = append(f.Blocks, c08.Block{Name: fmt.Sprintf("frame[%d].payload", i), End: off + 9 + l, Lens: []int{len(f.Fields) - 1}})
			}
			for i, off := range af.pads {
				f.Fields = append(f.Fields, c08.Field{Name: fmt.Sprintf("padLength[%d]", i), Off: off, Width: 1})
			}
			if !c08.Mutations(target, f, yield) {
				return
			}
			// frame-header fields: type and flags over ALL 256 values, stream id over the boundary set
			mk := func(class, desc string, b []byte) bool {
				return yield(c08.Case{Target: target, Frame: af.name, Class: class, Desc: desc, Hex: hex.EncodeToString(b)})
			}
			for i, off := range af.hdrs {
				for v := 0; v < 256; v++ {
					if byte(v) != af.b[off+3] {
						b := append([]byte(nil), af.b...)
						b[off+3] = byte(v)
						if !mk("type-field", fmt.Sprintf("frame[%d].type %d -> %d", i, af.b[off+3], v), b) {
							return
						}
					}
				}
				for v := 0; v < 256; v++ {
					if byte(v) != af.b[off+4] {
						b := append([]byte(nil), af.b...)
						b[off+4] = byte(v)
						if !mk("flags-field", fmt.Sprintf("frame[%d].flags %#x -> %#x", i, af.b[off+4], v), b) {
							return
						}
					}
				}
				sid := uint64(af.b[off+5])<<24 | uint64(af.b[off+6])<<16 | uint64(af.b[off+7])<<8 | uint64(af.b[off+8])
				for _, v := range append(c08.LengthValues(sid, 4), 1<<31|sid) {
					if v == sid {
						continue
					}
					b := append([]byte(nil), af.b...)
					b[off+5], b[off+6], b[off+7], b[off+8] = byte(v>>24), byte(v>>16), byte(v>>8), byte(v)
					if !mk("streamid-field", fmt.Sprintf("frame[%d].streamID %d -> %d", i, sid, v), b) {
						return
					}
				}
			}
		}
	}
}

const c08H2Bound = "all strings of length <=2 and 0x00+all 2-byte strings; frame alphabet from x/net's Framer {DATA pad 0/1/255, HEADERS (+priority+pad), SETTINGS, SETTINGS ack, PING, RST_STREAM, WINDOW_UPDATE, GOAWAY, PRIORITY, PUSH_PROMISE, unknown type, two DATA, HEADERS+1 and +2 CONTINUATION} x {every truncation; every frame length and pad length x {0,1,2,3,true-1,true+1,2^16-1,2^24-1}; every frame type and every flags byte x all 256 values; every stream id x {0,1,2,3,true-1,true+1,2^16-1,2^31-1,2^31,2^32-1,true|R-bit}; every byte x {0x00,0xFF,^b} (thorough: x all 256 values); every payload +-1..3 bytes with length adjusted; 1..3 trailing bytes}"
const c08H2Rule = "each input is read with a fresh MFramer (configured as NewServerConn/NewClientConn do) by repeated ReadFrame(ctx, buf, 0) until empty/ErrAGAIN/error, three times (exact-capacity buffer, 4096 spare bytes of 0xA5 / 0x3C); oracle: no panic escapes, identical frames/errors under different poison, TotalAlloc delta <= 1MiB+32*len(input), every call returns (60s; or >300ms with >128MiB in use and growing: the call is recorded and the enumeration continues in a fresh process, at most 8 (quick) / 400 (thorough) times). Which error a corrupted frame yields is not compared."

func TestVerifC08H2Framer(t *testing.T) {
	t.Parallel() // (each part enumerates in its own child process)
	c08.Main(t, c08.Spec{Prop: "C08", Part: "h2framer", Budget: time.Duration(vreport.Pick(6, 30)) * time.Minute,
		Gen: c08H2Gen("h2framer"), Exec: c08ExecH2,
		NoAlloc: func(c c08.Case) bool { return c.Class == "short" && !vreport.Thorough() },
		Bound:   c08H2Bound, Rule: c08H2Rule})
}
