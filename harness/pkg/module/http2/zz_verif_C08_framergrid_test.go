//go:build verif

package http2

// C08 unit "h2framer", parts "h2grid" and "h2grid-seq": the STRUCTURAL grid of the HTTP/2 framer.
//
// The part "h2framer" (zz_verif_C08_framer_test.go) corrupts ONE field of a handful of valid frames. A
// parser shortcut that only shows when a flag combination meets a boundary value of an in-payload length
// field (PADDED|PRIORITY with a pad length that fits before but not after the 5 priority bytes, PADDED
// PUSH_PROMISE whose pad length fits before but not after the promised stream id, an empty PADDED frame
// ...) is not forced by that alphabet. Here frames are CONSTRUCTED, not derived: for every frame type the
// framer has a parser for (and three it has none for), every combination of the four flag bits any parser
// looks at (END_STREAM/ACK 0x1, END_HEADERS 0x4, PADDED 0x8, PRIORITY 0x20) with and without the
// undefined bits, every payload length 0..N, every pad length around the payload length, boundary values
// of the other in-payload fields, stream id 0 / non-0 / reserved bit - the complete cartesian product,
// through the three ways a frame gets parsed:
//
//	mframer           MFramer.ReadFrame(ctx, buf, 0) repeated on one buffer (protocol/http2 codec)
//	mframer-bytewise  the same framer fed one more byte per read (every split of the input across reads)
//	framer            the forked io.Reader based Framer.ReadFrame configured as server.go configures it
//
// "h2grid-seq" does the same for header-block assembly: HEADERS (all flag combinations, pad lengths around
// the payload length) followed by a second frame (CONTINUATION with all its flags / lengths / stream ids,
// or a frame of another type) and an optional third one.

import (
	"bytes"
	"context"
	"encoding/hex"
	"fmt"
	"io"
	"io/ioutil"
	"net/http"
	"strings"
	"testing"
	"time"

	"mosn.io/pkg/buffer"

	"mosn.io/mosn/pkg/module/http2/hpack"
	"mosn.io/mosn/pkg/verifrt/c08"
	"mosn.io/mosn/pkg/verifrt/vreport"
)

// ---------------------------------------------------------------- entry points

const c08Overrun = " !frame-returned-before-its-bytes-arrived"

// c08ExecH2Bytewise: one framer, the input arrives one byte per read. Before every ReadFrame round the
// unconsumed bytes are moved to a fresh buffer whose spare capacity holds the caller's poison (a real
// connection's read buffer holds stale bytes there).
func c08ExecH2Bytewise(c c08.Case, buf []byte) string {
	fr := c08NewFramer()
	ctx := context.Background()
	spare := cap(buf) - len(buf)
	if spare > 64 {
		spare = 64
	}
	var poison byte
	if spare > 0 {
		poison = buf[:len(buf)+1][len(buf)]
	}
	var pending []byte
	var sb strings.Builder
	frames := 0
	for k := 0; k < len(buf); k++ {
		pending = append(pending, buf[k])
		b := make([]byte, len(pending)+spare)
		copy(b, pending)
		for i := len(pending); i < len(b); i++ {
			b[i] = poison
		}
		data := buffer.NewIoBufferBytes(b[:len(pending)])
		for i := 0; i < len(pending)/9+2 && data.Len() > 0; i++ {
			before := data.Len()
			f, n, err := fr.ReadFrame(ctx, data, 0)
			if err == ErrAGAIN {
				break
			}
			if err != nil {
				return fmt.Sprintf("error rest=%d after=%d%s err=%T:%s", data.Len(), k+1, sb.String(), err, err.Error())
			}
			frames++
			fmt.Fprintf(&sb, " @%d %s n=%d", k+1, c08DumpH2Frame(f), n)
			if n > before {
				sb.WriteString(c08Overrun)
			}
			if data.Len() == before {
				return fmt.Sprintf("frame rest=%d after=%d%s (nothing consumed)", data.Len(), k+1, sb.String())
			}
		}
		pending = append(pending[:0], data.Bytes()...)
	}
	kind := "more"
	if frames > 0 && len(pending) == 0 {
		kind = "frame"
	}
	return fmt.Sprintf("%s rest=%d%s", kind, len(pending), sb.String())
}

// c08ExecH2Forked: the forked x/net Framer over an io.Reader, configured as server.go's newServerConn
// (and transport.go's newClientConn) configure it; StreamErrors are not terminal for that read loop.
func c08ExecH2Forked(c c08.Case, buf []byte) string {
	rd := bytes.NewReader(buf)
	fr := NewFramer(ioutil.Discard, rd)
	fr.ReadMetaHeaders = hpack.NewDecoder(initialHeaderTableSize, nil)
	fr.MaxHeaderListSize = http.DefaultMaxHeaderBytes
	fr.SetMaxReadFrameSize(defaultMaxReadFrameSize)
	var sb strings.Builder
	kind := "frame"
	frames := 0
	for i := 0; i < len(buf)/9+2; i++ {
		f, err := fr.ReadFrame()
		if err == io.EOF || err == io.ErrUnexpectedEOF {
			// end of input (io.ErrUnexpectedEOF is also what the parsers return for a payload that is too short)
			if frames == 0 || err == io.ErrUnexpectedEOF {
				kind = "eof"
			}
			fmt.Fprintf(&sb, " %v", err)
			break
		}
		if err != nil {
			fmt.Fprintf(&sb, " err=%T:%s", err, err.Error())
			if terminalReadFrameError(err) {
				kind = "error"
				break
			}
			kind = "streamerror"
			continue
		}
		frames++
		fmt.Fprintf(&sb, " %s", c08DumpH2Frame(f))
	}
	return fmt.Sprintf("%s rest=%d%s", kind, rd.Len(), sb.String())
}

var c08GridEntries = []string{"mframer", "mframer-bytewise", "framer"}

func c08ExecH2Grid(c c08.Case, buf []byte) string {
	switch c.Extra {
	case "mframer":
		return c08ExecH2(c, buf)
	case "mframer-bytewise":
		return c08ExecH2Bytewise(c, buf)
	case "framer":
		return c08ExecH2Forked(c, buf)
	}
	panic("c08 grid: unknown entry point " + c.Extra)
}

func c08JudgeH2Grid(c c08.Case, out string) (string, string) {
	if strings.Contains(out, c08Overrun) {
		return fmt.Sprintf("%s class=%s frame returned before its bytes arrived", c.Target, c.Class),
			fmt.Sprintf("ReadFrame returned a frame of n bytes with fewer than n bytes in the buffer: %s; %s; input=%s", out, c.Desc, c.Hex)
	}
	return "", ""
}

// ---------------------------------------------------------------- grid

type c08GridDims struct {
	maxLen  int         // payload lengths 0..maxLen
	undef   []byte      // masks of undefined flag bits OR-ed onto every combination of the 4 tested bits
	prio    [][2]uint32 // (stream dependency word incl. exclusive bit, weight)
	u32s    []uint32    // promised stream id / last stream id / window increment words
	sids    []uint32    // 32-bit stream id words of the frame header (bit 31 = reserved bit)
	nfill   int         // number of body fills used
	sweepTo int         // payload lengths of the "all 256 flags" sweep
	allPads bool        // sweep: all 256 pad lengths instead of the boundary set
}

func c08Dims() c08GridDims {
	if vreport.Thorough() {
		return c08GridDims{maxLen: 20, undef: []byte{0, 0x02, 0x40, 0xd2},
			prio: [][2]uint32{{0, 0}, {1, 1}, {0x7fffffff, 16}, {0x80000000, 255}, {0x80000001, 0}, {0xffffffff, 255}},
			u32s: []uint32{0, 1, 0x7fffffff, 0x80000000, 0x80000001, 0xffffffff},
			sids: []uint32{0, 1, 0x7fffffff, 0x80000001}, nfill: 3, sweepTo: 8, allPads: true}
	}
	return c08GridDims{maxLen: 12, undef: []byte{0, 0xd2},
		prio: [][2]uint32{{0, 0}, {0x80000001, 255}, {0xffffffff, 16}},
		u32s: []uint32{0, 1, 0x7fffffff, 0x80000000, 0x80000001, 0xffffffff},
		sids: []uint32{0, 1, 0x80000001}, nfill: 2, sweepTo: 10}
}

// the flag bits some parser of frame.go looks at
var c08TestedBits = []byte{0x01, 0x04, 0x08, 0x20}

type c08GridType struct {
	name string
	typ  byte
}

var c08GridTypes = []c08GridType{{"DATA", 0}, {"HEADERS", 1}, {"PRIORITY", 2}, {"RST_STREAM", 3}, {"SETTINGS", 4},
	{"PUSH_PROMISE", 5}, {"PING", 6}, {"GOAWAY", 7}, {"WINDOW_UPDATE", 8}, {"CONTINUATION", 9},
	{"unknown-0x0a", 0x0a}, {"unknown-0x20", 0x20}, {"unknown-0xff", 0xff}}

// body fills: a valid hpack block of any length (":method GET", ":scheme http", ":path /", then
// "accept-encoding: gzip, deflate" repeated - all static-table indexes), 0xFF (an hpack varint that never
// ends / setting id 0xffff value 0xffffffff), 0x00.
var c08FillNames = []string{"hpack", "ff", "00"}

func c08Fill(which, i int) byte {
	switch which {
	case 0:
		if i < 3 {
			return []byte{0x82, 0x86, 0x84}[i]
		}
		return 0x90
	case 1:
		return 0xff
	}
	return 0x00
}

// SETTINGS payload patterns (repeated cyclically): valid settings incl. INITIAL_WINDOW_SIZE 2^31-1; the
// same with 2^31 (FLOW_CONTROL_ERROR path) in first and in second position.
var c08SettingsPatterns = [][]byte{
	{0, 4, 0x7f, 0xff, 0xff, 0xff, 0, 5, 0, 0, 0x40, 0, 0, 1, 0, 0, 0x10, 0},
	{0, 4, 0x80, 0, 0, 0, 0, 3, 0, 0, 0, 100},
	{0, 2, 0, 0, 0, 1, 0, 4, 0xff, 0xff, 0xff, 0xff},
}

func c08PadValues(L int, all bool) []int {
	var out []int
	if all {
		for v := 0; v < 256; v++ {
			out = append(out, v)
		}
		return out
	}
	for v := 0; v <= L+2; v++ {
		out = append(out, v)
	}
	for _, v := range []int{0x7f, 0x80, 0xfe, 0xff} {
		if v > L+2 {
			out = append(out, v)
		}
	}
	return out
}

func c08U32(v uint32) []byte { return []byte{byte(v >> 24), byte(v >> 16), byte(v >> 8), byte(v)} }

func c08RawFrame(typ, flags byte, sid uint32, payload []byte) []byte {
	b := []byte{byte(len(payload) >> 16), byte(len(payload) >> 8), byte(len(payload)), typ, flags}
	b = append(b, c08U32(sid)...)
	return append(b, payload...)
}

// c08GridPayloads yields every payload of exactly L bytes for (typ, flags): the structured fields the type
// defines under these flags, each over its value set, followed by a body fill, cut (or filled up) to L.
// first=true: only the first value of every non-length field and the first fill (the flags sweep).
func c08GridPayloads(typ, flags byte, L int, d c08GridDims, pads []int, first bool, emit func(desc string, p []byte) bool) bool {
	build := func(structured []byte, fill func(i int) byte) []byte {
		p := make([]byte, L)
		for i := range p {
			if i < len(structured) {
				p[i] = structured[i]
			} else {
				p[i] = fill(i - len(structured))
			}
		}
		return p
	}
	fills := func(which []int, desc string, structured []byte) bool {
		for _, w := range which {
			w := w
			if !emit(desc+" fill="+c08FillNames[w], build(structured, func(i int) byte { return c08Fill(w, i) })) {
				return false
			}
			if first {
				break
			}
		}
		return true
	}
	hp := []int{0, 1, 2}[:d.nfill] // hpack, ff, (00)
	raw := []int{2, 1}             // 00, ff
	prio, u32s := d.prio, d.u32s
	if first {
		prio, u32s = prio[:1], u32s[1:2]
	}
	padded := flags&0x08 != 0 && L > 0
	padList := []int{-1}
	if padded && (typ == 0 || typ == 1 || typ == 5) {
		padList = pads
	}
	for _, pad := range padList {
		var pre []byte
		pdesc := ""
		if pad >= 0 {
			pre = []byte{byte(pad)}
			pdesc = fmt.Sprintf(" pad=%d", pad)
		}
		switch typ {
		case 0: // DATA: [pad] data padding
			if !fills(raw, pdesc, pre) {
				return false
			}
		case 1: // HEADERS: [pad] [dep weight] fragment padding
			if flags&0x20 != 0 {
				for _, pr := range prio {
					s := append(append(append([]byte(nil), pre...), c08U32(pr[0])...), byte(pr[1]))
					if !fills(hp, fmt.Sprintf("%s dep=%#08x w=%d", pdesc, pr[0], pr[1]), s) {
						return false
					}
				}
			} else if !fills(hp, pdesc, pre) {
				return false
			}
		case 5: // PUSH_PROMISE: [pad] promised-id fragment padding
			for _, v := range u32s {
				s := append(append([]byte(nil), pre...), c08U32(v)...)
				if !fills(hp, fmt.Sprintf("%s promise=%#08x", pdesc, v), s) {
					return false
				}
			}
		case 2: // PRIORITY: dep weight
			for _, pr := range prio {
				if !fills(raw, fmt.Sprintf(" dep=%#08x w=%d", pr[0], pr[1]), append(c08U32(pr[0]), byte(pr[1]))) {
					return false
				}
			}
		case 3: // RST_STREAM: error code
			for _, v := range []uint32{0, 8, 0xffffffff} {
				if !fills(raw, fmt.Sprintf(" code=%#x", v), c08U32(v)) {
					return false
				}
				if first {
					break
				}
			}
		case 4: // SETTINGS: 6-byte settings
			for i, pat := range c08SettingsPatterns {
				pat := pat
				if !emit(fmt.Sprintf(" settings-pattern=%d", i), build(nil, func(i int) byte { return pat[i%len(pat)] })) {
					return false
				}
				if first {
					break
				}
			}
			if !first && !fills(raw, "", nil) {
				return false
			}
		case 7: // GOAWAY: last-stream-id error-code debug
			for i, v := range u32s {
				code := uint32(0)
				if i%2 == 1 {
					code = 0xffffffff
				}
				if !fills(raw[1:], fmt.Sprintf(" last=%#08x code=%#x", v, code), append(c08U32(v), c08U32(code)...)) {
					return false
				}
			}
		case 8: // WINDOW_UPDATE: increment (0 and 2^31 are the zero-increment error path)
			for _, v := range d.u32s {
				if !fills(raw, fmt.Sprintf(" incr=%#08x", v), c08U32(v)) {
					return false
				}
				if first {
					break
				}
			}
		case 9: // CONTINUATION: fragment
			if !fills(hp, "", nil) {
				return false
			}
		default: // PING, unknown types: opaque
			if !fills(raw, "", nil) {
				return false
			}
		}
	}
	return true
}

func c08H2GridGen(yield func(c08.Case) bool) {
	d := c08Dims()
	out := func(class, desc string, b []byte) bool {
		h := hex.EncodeToString(b)
		for _, e := range c08GridEntries {
			if !yield(c08.Case{Target: "h2grid/" + e, Frame: class, Class: class, Desc: desc, Hex: h, Extra: e}) {
				return false
			}
		}
		return true
	}
	for _, ft := range c08GridTypes {
		// 1. full cross: 16 combinations of the tested bits x undefined-bit masks x length x stream id x fields
		for sub := 0; sub < 16; sub++ {
			var tested byte
			for i, bit := range c08TestedBits {
				if sub&(1<<uint(i)) != 0 {
					tested |= bit
				}
			}
			for _, u := range d.undef {
				flags := tested | u
				for L := 0; L <= d.maxLen; L++ {
					pads := c08PadValues(L, false)
					for _, sid := range d.sids {
						hd := fmt.Sprintf("type=%d flags=%#02x len=%d sid=%#08x", ft.typ, flags, L, sid)
						if !c08GridPayloads(ft.typ, flags, L, d, pads, false, func(desc string, p []byte) bool {
							return out(ft.name, hd+desc, c08RawFrame(ft.typ, flags, sid, p))
						}) {
							return
						}
					}
				}
			}
		}
		// 2. flags sweep: all 256 flags values x length x pad length (thorough: all 256 pad lengths), stream id 1
		for fl := 0; fl < 256; fl++ {
			flags := byte(fl)
			for L := 0; L <= d.sweepTo; L++ {
				pads := c08PadValues(L, d.allPads)
				hd := fmt.Sprintf("type=%d flags=%#02x len=%d sid=0x00000001 (sweep)", ft.typ, flags, L)
				if !c08GridPayloads(ft.typ, flags, L, d, pads, true, func(desc string, p []byte) bool {
					return out(ft.name, hd+desc, c08RawFrame(ft.typ, flags, 1, p))
				}) {
					return
				}
			}
		}
	}
}

// ---------------------------------------------------------------- header-block assembly

// c08H2SeqGen: HEADERS(flags, L1, pad, [priority]) + second frame + optional third frame. The hpack
// fill is ONE valid block distributed over the fragments in order, so that a correctly assembled block
// decodes and a mis-sliced one does not go unnoticed by the poison comparison.
func c08H2SeqGen(yield func(c08.Case) bool) {
	maxL1 := vreport.Pick(7, 12)
	maxL2 := vreport.Pick(3, 6)
	nfill := vreport.Pick(1, 2)
	type second struct {
		name  string
		typ   byte
		flags []byte
		lens  []int
		sids  []uint32
	}
	var contLens []int
	for l := 0; l <= maxL2; l++ {
		contLens = append(contLens, l)
	}
	seconds := []second{
		{"CONTINUATION", 9, []byte{0x00, 0x04, 0xfb, 0xff}, contLens, []uint32{1, 3, 0, 0x80000001}},
		{"DATA", 0, []byte{0x00, 0x08}, []int{0, 1}, []uint32{1}},
		{"HEADERS", 1, []byte{0x04, 0x2c}, []int{0, 1, 6}, []uint32{1}},
		{"PRIORITY", 2, []byte{0x00}, []int{5}, []uint32{1}},
		{"SETTINGS", 4, []byte{0x00}, []int{0}, []uint32{0}},
		{"unknown-0x0a", 0x0a, []byte{0x04}, []int{0, 1}, []uint32{1}},
	}
	type third struct {
		name  string
		none  bool
		flags byte
		l     int
	}
	thirds := []third{{"none", true, 0, 0}, {"CONTINUATION+END_HEADERS len 0", false, 0x04, 0}, {"CONTINUATION+END_HEADERS len 2", false, 0x04, 2},
		{"CONTINUATION len 1", false, 0x00, 1}}
	out := func(class, frame, desc string, b []byte) bool {
		h := hex.EncodeToString(b)
		for _, e := range c08GridEntries {
			if !yield(c08.Case{Target: "h2grid/" + e, Frame: frame, Class: class, Desc: desc, Hex: h, Extra: e}) {
				return false
			}
		}
		return true
	}
	for sub := 0; sub < 16; sub++ {
		var flags byte
		for i, bit := range c08TestedBits {
			if sub&(1<<uint(i)) != 0 {
				flags |= bit
			}
		}
		for L1 := 0; L1 <= maxL1; L1++ {
			padList := []int{-1}
			if flags&0x08 != 0 && L1 > 0 {
				padList = padList[:0]
				for v := 0; v <= L1+1; v++ {
					padList = append(padList, v)
				}
				padList = append(padList, 0xff)
			}
			for _, pad := range padList {
				var pre []byte
				if pad >= 0 {
					pre = append(pre, byte(pad))
				}
				if flags&0x20 != 0 {
					pre = append(pre, 0x80, 0, 0, 3, 7)
				}
				for fill := 0; fill < nfill; fill++ {
					pos := 0 // position in the fill stream
					take := func(n int) []byte {
						b := make([]byte, n)
						for i := range b {
							b[i] = c08Fill(fill, pos)
							pos++
						}
						return b
					}
					// first frame
					p1 := make([]byte, 0, L1)
					p1 = append(p1, pre...)
					if len(p1) > L1 {
						p1 = p1[:L1]
					}
					// the fragment is what remains after the structured prefix minus the padding
					fragLen := L1 - len(p1)
					padBytes := 0
					if pad >= 0 && pad <= fragLen {
						padBytes = pad
					}
					p1 = append(p1, take(fragLen-padBytes)...)
					p1 = append(p1, make([]byte, padBytes)...)
					f1 := c08RawFrame(1, flags, 1, p1)
					pos1 := pos
					for _, s := range seconds {
						for _, f2flags := range s.flags {
							for _, L2 := range s.lens {
								for _, sid2 := range s.sids {
									pos = pos1
									var p2 []byte
									if s.typ == 9 || s.typ == 0x0a {
										p2 = take(L2)
									} else if s.typ == 1 && L2 == 6 {
										p2 = []byte{0, 0, 0, 0, 0, 1} // PADDED|PRIORITY: pad 0 + 5 priority bytes
									} else {
										p2 = make([]byte, L2)
									}
									f2 := c08RawFrame(s.typ, f2flags, sid2, p2)
									pos2 := pos
									for _, th := range thirds {
										pos = pos2
										b := append(append([]byte(nil), f1...), f2...)
										if !th.none {
											b = append(b, c08RawFrame(9, th.flags, 1, take(th.l))...)
										}
										desc := fmt.Sprintf("HEADERS flags=%#02x len=%d pad=%d sid=1 | %s flags=%#02x len=%d sid=%#08x | %s; fill=%s",
											flags, L1, pad, s.name, f2flags, L2, sid2, th.name, c08FillNames[fill])
										if !out("HEADERS+next", "HEADERS+"+s.name, desc, b) {
											return
										}
									}
								}
							}
						}
					}
				}
			}
		}
	}
}

const c08H2GridRule = "every constructed input is parsed through three entry points (cases differ in 'extra'): MFramer.ReadFrame(ctx, buf, 0) repeated on the whole buffer; the same MFramer fed one more byte per read (unconsumed bytes carried over to a fresh buffer whose spare capacity is poisoned); the forked io.Reader Framer.ReadFrame configured as server.go does (ReadMetaHeaders, MaxHeaderListSize, 1 MiB max read frame size; StreamErrors are not terminal). Each three times (exact-capacity buffer, spare bytes 0xA5 / 0x3C). Oracle: no panic escapes; identical outcome under different poison; TotalAlloc delta <= 1MiB+32*len(input); every call returns; ReadFrame never returns a frame of n bytes with fewer than n bytes buffered. Which inputs are accepted, and whether the three entry points agree, is NOT compared (the statement is silent)."

func c08H2GridBound() string {
	d := c08Dims()
	return fmt.Sprintf("frame types DATA HEADERS PRIORITY RST_STREAM SETTINGS PUSH_PROMISE PING GOAWAY WINDOW_UPDATE CONTINUATION 0x0a 0x20 0xff x {all 16 combinations of the flag bits 0x1 0x4 0x8 0x20} x {undefined-bit masks %x} x payload length 0..%d x stream id words %x x in-payload fields: pad length (DATA/HEADERS/PUSH_PROMISE with PADDED) {0..len+2,127,128,254,255}, (stream dependency word, weight) %x for HEADERS+PRIORITY and PRIORITY, promised id / GOAWAY last-stream-id / WINDOW_UPDATE increment %x, RST code {0,8,2^32-1}, 3 SETTINGS patterns (INITIAL_WINDOW_SIZE 2^31-1 / 2^31 first / 2^32-1 second) + 00/ff, body fills %v (hpack = a valid block of any length); plus a sweep of ALL 256 flags values x payload length 0..%d x pad length (%s) at stream id 1; all x 3 entry points",
		d.undef, d.maxLen, d.sids, d.prio, d.u32s, c08FillNames[:d.nfill], d.sweepTo, map[bool]string{false: "boundary set", true: "all 256 values"}[d.allPads])
}

func TestVerifC08H2Grid(t *testing.T) {
	t.Parallel() // (each part enumerates in its own child process)
	c08.Main(t, c08.Spec{Prop: "C08", Part: "h2grid", Budget: time.Duration(vreport.Pick(6, 30)) * time.Minute,
		Gen: c08H2GridGen, Exec: c08ExecH2Grid, Judge: c08JudgeH2Grid,
		Bound: c08H2GridBound(), Rule: c08H2GridRule})
}

func TestVerifC08H2GridSeq(t *testing.T) {
	t.Parallel() // (each part enumerates in its own child process)
	c08.Main(t, c08.Spec{Prop: "C08", Part: "h2grid-seq", Budget: time.Duration(vreport.Pick(6, 30)) * time.Minute,
		Gen: c08H2SeqGen, Exec: c08ExecH2Grid, Judge: c08JudgeH2Grid,
		Bound: fmt.Sprintf("HEADERS {all 16 combinations of END_STREAM END_HEADERS PADDED PRIORITY} x payload length 0..%d x pad length {0..len+1,255} on stream 1, followed by {CONTINUATION flags {0,0x4,0xfb,0xff} x length 0..%d x stream id {1,3,0,1|R}; DATA; HEADERS (END_HEADERS; +PADDED|PRIORITY); PRIORITY; SETTINGS; unknown type}, followed by {nothing; CONTINUATION+END_HEADERS length 0 / 2; CONTINUATION without END_HEADERS}; the hpack fill is one valid block distributed over the fragments (%d fills); x 3 entry points",
			vreport.Pick(7, 12), vreport.Pick(3, 6), vreport.Pick(1, 2)),
		Rule: c08H2GridRule})
}
