//go:build verif

// Model connection shared by the C01 (TCP relay fidelity) and C10 (TCP proxy
// connection accounting) harnesses of the streamproxy filter. See the
// environment model described at the top of zz_verif_C01_tcprelay_test.go.
package streamproxy

import (
	"context"
	"errors"
	"net"
	"sync"
	"sync/atomic"
	"time"

	"github.com/rcrowley/go-metrics"
	"mosn.io/api"
	"mosn.io/mosn/pkg/log"
	"mosn.io/mosn/pkg/network"
	"mosn.io/mosn/pkg/types"
	"mosn.io/pkg/buffer"
)

// ---------------------------------------------------------------------------
// model connection

type c01Item struct {
	name string
	data []byte
	eof  bool
}

type c01Conn struct {
	id        uint64
	name      string
	local     net.Addr
	remote    net.Addr
	fm        api.FilterManager
	listeners []api.ConnectionEventListener
	readBuf   buffer.IoBuffer
	closed    uint32

	isClient      bool
	outcome       string // "ok" | "fail" | "timeout" | "ok-eof" (connected, the peer closes before Connect returns)
	duringConnect func() // optional: runs inside Connect() before the outcome is delivered
	connected     bool
	connectN      int

	readEnabled      bool
	readDisableCount int

	queued bool
	wq     []buffer.IoBuffer // queued mode: buffers not yet written by the write loop

	inbox      []c01Item // what the peer sent and the connection has not read yet
	peerClosed bool      // the peer closed (EOF queued or already seen)

	// observations
	read            []byte // R: bytes handed to the read filters, in order
	reads           int
	delivered       []byte // W: bytes that reached the peer, in order
	events          []api.ConnectionEvent
	droppedOnClose  int // queued bytes dropped by a Close(NoFlush)
	writeAfterClose int
	closeBy         string // "peer" | "proxy"
}

var _ types.ClientConnection = (*c01Conn)(nil)

var c01IDSeq uint64 = 1 << 41

func c01Addr(s string) net.Addr {
	a, _ := net.ResolveTCPAddr("tcp", s)
	return a
}

func c01NewConn(name string, client bool, remote net.Addr, queued bool) *c01Conn {
	c := &c01Conn{id: atomic.AddUint64(&c01IDSeq, 1), name: name, isClient: client, remote: remote, queued: queued, readEnabled: true}
	if client {
		c.local = c01Addr("127.0.0.1:50002")
	} else {
		c.local = c01Addr("127.0.0.1:2045")
		c.connected = true
	}
	c.fm = network.NewFilterManager(c)
	return c
}

func (c *c01Conn) isClosed() bool { return atomic.LoadUint32(&c.closed) == 1 }

// deliverInbox hands pending peer sends to the connection while it reads.
// Returns true if anything happened.
func (c *c01Conn) deliverInbox() bool {
	progress := false
	for len(c.inbox) > 0 && !c.isClosed() && c.readEnabled && c.connected {
		it := c.inbox[0]
		if it.eof {
			c.inbox = c.inbox[1:]
			c.closeBy = "peer"
			c.Close(api.NoFlush, api.RemoteClose)
			progress = true
			continue
		}
		// coalesce consecutive data items into one read
		var chunk []byte
		for len(c.inbox) > 0 && !c.inbox[0].eof {
			chunk = append(chunk, c.inbox[0].data...)
			c.inbox = c.inbox[1:]
		}
		if c.readBuf == nil {
			c.readBuf = buffer.GetIoBuffer(1 << 10)
		}
		c.readBuf.Write(chunk)
		c.read = append(c.read, chunk...)
		c.reads++
		progress = true
		if c.readBuf.Len() > 0 {
			c.fm.OnRead()
		}
	}
	return progress
}

// runWriteLoop is the queued-mode write loop: everything queued is written in
// order; an EOF buffer closes the connection (connection.startWriteLoop).
func (c *c01Conn) runWriteLoop() {
	for len(c.wq) > 0 && !c.isClosed() {
		b := c.wq[0]
		c.wq = c.wq[1:]
		c.delivered = append(c.delivered, b.Bytes()...)
		eof := b.EOF()
		buffer.PutIoBuffer(b)
		if eof {
			if c.closeBy == "" {
				c.closeBy = "proxy"
			}
			c.Close(api.NoFlush, api.LocalClose)
		}
	}
}

func (c *c01Conn) ID() uint64                 { return c.id }
func (c *c01Conn) Start(lctx context.Context) {}

func (c *c01Conn) Write(bufs ...buffer.IoBuffer) error {
	if fs := c.fm.OnWrite(bufs); fs == api.Stop {
		return nil
	}
	if c.isClosed() {
		c.writeAfterClose++
		return types.ErrConnectionHasClosed
	}
	if c.queued {
		for _, b := range bufs {
			if b != nil {
				c.wq = append(c.wq, b)
			}
		}
		return nil
	}
	eof := false
	for _, b := range bufs {
		if b == nil {
			continue
		}
		c.delivered = append(c.delivered, b.Bytes()...)
		if b.EOF() {
			eof = true
		}
		buffer.PutIoBuffer(b)
	}
	if eof {
		if c.closeBy == "" {
			c.closeBy = "proxy"
		}
		c.Close(api.NoFlush, api.LocalClose)
	}
	return nil
}

func (c *c01Conn) Close(ccType api.ConnectionCloseType, eventType api.ConnectionEvent) error {
	if ccType == api.FlushWrite {
		c.Write(buffer.NewIoBufferEOF())
		return nil
	}
	if !atomic.CompareAndSwapUint32(&c.closed, 0, 1) {
		return nil
	}
	if c.closeBy == "" {
		c.closeBy = "proxy"
	}
	for _, b := range c.wq {
		c.droppedOnClose += b.Len()
	}
	c.wq = nil
	if c.isClient && !c.connected {
		return nil // connection failed in client mode: rawConnection == nil, no event
	}
	c.OnConnectionEvent(eventType)
	return nil
}

func (c *c01Conn) LocalAddr() net.Addr            { return c.local }
func (c *c01Conn) RemoteAddr() net.Addr           { return c.remote }
func (c *c01Conn) SetRemoteAddr(address net.Addr) { c.remote = address }
func (c *c01Conn) AddConnectionEventListener(l api.ConnectionEventListener) {
	c.listeners = append(c.listeners, l)
}
func (c *c01Conn) OnConnectionEvent(event api.ConnectionEvent) {
	c.events = append(c.events, event)
	for _, l := range c.listeners {
		l.OnEvent(event)
	}
}
func (c *c01Conn) AddBytesReadListener(l func(bytesRead uint64)) {}
func (c *c01Conn) AddBytesSentListener(l func(bytesSent uint64)) {}
func (c *c01Conn) NextProtocol() string                          { return "" }
func (c *c01Conn) SetNoDelay(enable bool)                        {}

// SetReadDisable mirrors connection.SetReadDisable (nesting count included);
// the wake-up of the read loop is the harness pump that runs after every event.
func (c *c01Conn) SetReadDisable(disable bool) {
	if disable {
		if !c.readEnabled {
			c.readDisableCount++
			return
		}
		c.readEnabled = false
	} else {
		if c.readDisableCount > 0 {
			c.readDisableCount--
			return
		}
		c.readEnabled = true
	}
}
func (c *c01Conn) ReadEnabled() bool                                                   { return c.readEnabled }
func (c *c01Conn) TLS() net.Conn                                                       { return nil }
func (c *c01Conn) SetBufferLimit(limit uint32)                                         {}
func (c *c01Conn) BufferLimit() uint32                                                 { return 0 }
func (c *c01Conn) SetLocalAddress(localAddress net.Addr, restored bool)                { c.local = localAddress }
func (c *c01Conn) SetCollector(read, write metrics.Counter)                            {}
func (c *c01Conn) LocalAddressRestored() bool                                          { return false }
func (c *c01Conn) GetWriteBuffer() []buffer.IoBuffer                                   { return nil }
func (c *c01Conn) GetReadBuffer() buffer.IoBuffer                                      { return c.readBuf }
func (c *c01Conn) FilterManager() api.FilterManager                                    { return c.fm }
func (c *c01Conn) RawConn() net.Conn                                                   { return nil }
func (c *c01Conn) SetTransferEventListener(listener func() bool)                       {}
func (c *c01Conn) SetIdleTimeout(readTimeout time.Duration, idleTimeout time.Duration) {}
func (c *c01Conn) State() api.ConnState {
	if c.isClosed() {
		return api.ConnClosed
	}
	return api.ConnActive
}
func (c *c01Conn) OnRead(b buffer.IoBuffer) {}
func (c *c01Conn) SetMark(uint32)           {}

// Connect mirrors clientConnection.Connect: once; listeners get the event,
// then the error is returned.
func (c *c01Conn) Connect() (err error) {
	c.connectN++
	if c.connectN > 1 {
		return nil
	}
	if c.duringConnect != nil {
		// something another goroutine does while this connect is in progress
		c.duringConnect()
	}
	var event api.ConnectionEvent
	switch c.outcome {
	case "ok", "ok-eof":
		event = api.Connected
		c.connected = true
	case "timeout":
		event = api.ConnectTimeout
		err = errors.New("i/o timeout")
	default:
		event = api.ConnectFailed
		err = errors.New("connection refused")
	}
	c.events = append(c.events, event)
	for _, l := range c.listeners {
		l.OnEvent(event)
	}
	if c.outcome == "ok-eof" {
		// clientConnection.Connect starts the read loop (cc.Start) BEFORE it runs the
		// Connected callbacks: a peer that closes at once is seen by the read-loop
		// goroutine (Close(NoFlush, RemoteClose) -> listeners) while the caller of
		// Connect() has not returned yet. This is that interleaving.
		c.peerClosed = true
		c.closeBy = "peer"
		c.Close(api.NoFlush, api.RemoteClose)
	}
	return err
}

// ---------------------------------------------------------------------------
// client connection factory: the world in charge decides what a new upstream
// connection is

var c01OnCreate func(remoteAddr net.Addr) *c01Conn
var c01Once sync.Once

func c01Init() {
	c01Once.Do(func() {
		log.DefaultLogger.SetLogLevel(log.FATAL)
		network.RegisterClientConnFactory(func(connectTimeout time.Duration, tlsMng types.TLSClientContextManager, remoteAddr net.Addr, stopChan chan struct{}) types.ClientConnection {
			return c01OnCreate(remoteAddr)
		})
	})
}
