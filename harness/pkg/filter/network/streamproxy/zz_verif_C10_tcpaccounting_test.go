//go:build verif

// C10 for the TCP proxy: the cluster's "connections" circuit-breaker resource
// and the upstream "active connection" gauges the streamproxy filter maintains
// are conserved on every path, and max_connections trips at its threshold.
//
// Where the filter counts (pkg/filter/network/streamproxy/streamproxy.go, read):
//
//	initializeUpstreamConnection
//	  Connections().CanCreate()            false -> UpstreamOverflow, downstream closed, nothing counted
//	  per failed attempt                   cluster UpstreamConnectionRetry.Inc (counter)
//	  no attempt succeeded                 cluster UpstreamConnectionConFail.Inc (counter)
//	  after a successful Connect()         Connections().Increase()
//	                                       host + cluster UpstreamConnectionActive.Inc, UpstreamConnectionTotal.Inc
//	                                       readCallbacks.SetUpstreamHost(host)
//	onUpstreamEvent
//	  RemoteClose|OnWriteTimeout|OnWriteErrClose|LocalClose|OnReadErrClose|ConnectTimeout
//	                                       finalizeUpstreamConnectionStats: Connections().Decrease()
//	                                       - only if readCallbacks.UpstreamHost() is already set
//	onUpstreamEventStats
//	  every close event                    cluster UpstreamConnectionActive.Dec, UpstreamConnectionClose.Inc
//	                                       host    UpstreamConnectionActive.Dec, ...Close.Inc - only if UpstreamHost() is set
//	  ConnectFailed                        cluster (+host if set) UpstreamConnectionConFail.Inc
//
// So the filter counts a connection from the moment Connect() has SUCCEEDED (a
// connection that is still being connected is not counted, and CanCreate() /
// Increase() are two steps), and resource.Increase/Decrease are no-ops when
// max_connections is 0: Cur() stays 0 for an unlimited cluster. The filter keeps
// no downstream gauge at all ("TODO: set downstream connection stats") and the
// tcp flavour arms no idle timer (SetIdleTimeout is only called for udp).
//
// Search: the explicit-state BFS of the C01 relay harness (state = event
// history replayed on a fresh cluster manager + fresh filters + fresh model
// connections, plus one event), with 2-3 downstream connection slots proxied at
// the same time over one 2-host cluster with max_connections in {0, 1, 2}. A slot
// whose connections are all closed can be taken by a NEW downstream connection
// (fresh filter), so "a later one succeeds once capacity was released" is part
// of the search. Two interleavings of goroutines that the sequential events
// cannot produce are events of their own (both are plain consequences of
// pkg/network: every accepted connection is handled on its own goroutine
// (listener.accept), and clientConnection.Connect starts the read loop before it
// runs the Connected callbacks):
//
//	race   two downstream connections accepted at the same time: the second
//	       filter's whole OnNewConnection runs while the first one's upstream
//	       Connect() is in progress (after its CanCreate(), before its Increase())
//	ok-eof the upstream peer closes at once: its EOF is handled (RemoteClose
//	       event) before Connect() returns to the filter
package streamproxy

import (
	"context"
	"fmt"
	"net"
	"sort"
	"strings"
	"testing"
	"time"

	"mosn.io/api"
	v2 "mosn.io/mosn/pkg/config/v2"
	"mosn.io/mosn/pkg/types"
	"mosn.io/mosn/pkg/upstream/cluster"
	"mosn.io/mosn/pkg/verifrt/vreport"
	"mosn.io/pkg/variable"
)

const c10Cluster = "c10tcp"

var c10HostAddrs = []string{"127.0.0.1:22001", "127.0.0.1:22002"}

type c10Slot struct {
	idx     int
	gen     int // how many downstream connections used this slot before
	down    *c01Conn
	p       *proxy
	created []*c01Conn // upstream connections this filter asked for
	phase   string     // "fresh" | "ok" | "failed" | "refused"
}

// up is the upstream connection the filter relays to (nil unless connected).
func (s *c10Slot) up() *c01Conn {
	if s.phase != "ok" || s.p == nil || s.p.upstreamConnection == nil {
		return nil
	}
	c, _ := s.p.upstreamConnection.(*c01Conn)
	return c
}

func (s *c10Slot) terminal() bool {
	if s.phase == "fresh" {
		return false
	}
	up := s.up()
	return s.down.isClosed() && (up == nil || up.isClosed())
}

type c10World struct {
	queued bool
	max    uint32
	slots  []*c10Slot
	allUp  []*c01Conn // every upstream connection ever created (all slots, all generations)
	cur    *c10Slot   // the slot whose filter is creating connections right now
	script []string
	nested func() // runs inside the next upstream Connect()
	info   types.ClusterInfo
	hosts  map[string]types.Host
	base   map[string]int64 // gauge values when the world was built (go-metrics registries are process-global)
	// what the last connect event saw
	lastOpenBefore int
	lastAttempts   int
	lastRefused    bool
	// the kinds of events at which the books changed relative to the model (finding keys carry them)
	driftCauses map[string]bool
}

func c10NewWorld(queued bool, max uint32, nslots int) *c10World {
	c01Init()
	w := &c10World{queued: queued, max: max, hosts: map[string]types.Host{}, base: map[string]int64{}}
	c01OnCreate = func(remoteAddr net.Addr) *c01Conn {
		s := w.cur
		c := c01NewConn(fmt.Sprintf("up%d.%d.%d", s.idx, s.gen, len(s.created)), true, remoteAddr, w.queued)
		c.outcome = "ok"
		if len(w.script) > 0 {
			c.outcome = w.script[0]
			w.script = w.script[1:]
		}
		if w.nested != nil {
			c.duringConnect, w.nested = w.nested, nil
		}
		s.created = append(s.created, c)
		w.allUp = append(w.allUp, c)
		return c
	}
	if cm := cluster.GetClusterMngAdapterInstance().ClusterManager; cm != nil {
		if d, ok := cm.(interface{ Destroy() }); ok {
			d.Destroy()
		}
	}
	cc := v2.Cluster{Name: c10Cluster, ClusterType: v2.SIMPLE_CLUSTER, LbType: v2.LB_ROUNDROBIN}
	if max > 0 {
		cc.CirBreThresholds = v2.CircuitBreakers{Thresholds: []v2.Thresholds{{MaxConnections: max}}}
	}
	var hosts []v2.Host
	for _, a := range c10HostAddrs {
		hosts = append(hosts, v2.Host{HostConfig: v2.HostConfig{Address: a, Weight: 1}})
	}
	cm := cluster.NewClusterManagerSingleton([]v2.Cluster{cc}, map[string][]v2.Host{c10Cluster: hosts}, nil)
	snap := cm.GetClusterSnapshot(context.Background(), c10Cluster)
	w.info = snap.ClusterInfo()
	snap.HostSet().Range(func(h types.Host) bool {
		w.hosts[h.AddressString()] = h
		return true
	})
	for k, v := range w.gauges() {
		w.base[k] = v
	}
	for i := 0; i < nslots; i++ {
		w.slots = append(w.slots, w.newSlot(i, 0))
	}
	return w
}

func (w *c10World) newSlot(idx, gen int) *c10Slot {
	s := &c10Slot{idx: idx, gen: gen, phase: "fresh"}
	ctx := variable.NewVariableContext(context.Background())
	_ = variable.Set(ctx, types.VariableAccessLogs, []api.AccessLog{})
	s.down = c01NewConn(fmt.Sprintf("down%d.%d", idx, gen), false, c01Addr(fmt.Sprintf("127.0.0.1:%d", 50001+idx)), w.queued)
	s.p = NewProxy(ctx, &v2.StreamProxy{Cluster: c10Cluster}, "tcp").(*proxy)
	s.down.fm.AddReadFilter(s.p)
	return s
}

// gauges reads the 'active' gauges the filter maintains (absolute values).
func (w *c10World) gauges() map[string]int64 {
	g := map[string]int64{"cluster": w.info.Stats().UpstreamConnectionActive.Count()}
	for a, h := range w.hosts {
		g["host "+a] = h.HostStats().UpstreamConnectionActive.Count()
	}
	return g
}

// open counts the upstream connections that are connected and not closed - the
// model connections are the model's truth.
func (w *c10World) open() (total int, perHost map[string]int) {
	perHost = map[string]int{}
	for _, c := range w.allUp {
		if c.connected && !c.isClosed() {
			total++
			perHost[c.remote.String()]++
		}
	}
	return
}

// ---- events: "<slot>:<what>" and "race:<i>,<j>"

var c10ConnectScripts = map[string][]string{
	"conn-ok":              {"ok"},
	"conn-ok-eof":          {"ok-eof"},
	"conn-fail-ok":         {"fail", "ok"},
	"conn-timeout-ok":      {"timeout", "ok"},
	"conn-fail-fail":       {"fail", "fail"},
	"conn-timeout-timeout": {"timeout", "timeout"},
}

var c10SlotEvents = []string{"conn-ok", "conn-ok-eof", "conn-fail-ok", "conn-timeout-ok", "conn-fail-fail", "conn-timeout-timeout",
	"da", "dclose", "ux", "uclose", "wU", "wD"}

func (w *c10World) events() []string {
	var out []string
	for i := range w.slots {
		for _, e := range c10SlotEvents {
			out = append(out, fmt.Sprintf("%d:%s", i, e))
		}
	}
	for i := range w.slots {
		for j := range w.slots {
			if i != j {
				out = append(out, fmt.Sprintf("race:%d,%d", i, j))
			}
		}
	}
	return out
}

func c10Parse(e string) (kind string, i, j int) {
	if strings.HasPrefix(e, "race:") {
		fmt.Sscanf(e, "race:%d,%d", &i, &j)
		return "race", i, j
	}
	k := strings.IndexByte(e, ':')
	fmt.Sscanf(e[:k], "%d", &i)
	return e[k+1:], i, -1
}

func (w *c10World) connectable(s *c10Slot) bool { return s.phase == "fresh" || s.terminal() }

func (w *c10World) enabled(e string) bool {
	kind, i, j := c10Parse(e)
	if i >= len(w.slots) || j >= len(w.slots) {
		return false
	}
	s := w.slots[i]
	if kind == "race" {
		// only among slots that never carried a connection, first slot index first: the two
		// accepts are symmetric and later generations add nothing to this interleaving
		return i < j && s.phase == "fresh" && s.gen == 0 && w.slots[j].phase == "fresh" && w.slots[j].gen == 0
	}
	if _, ok := c10ConnectScripts[kind]; ok {
		return w.connectable(s)
	}
	up := s.up()
	switch kind {
	case "da", "dclose":
		return !s.down.peerClosed && !s.down.isClosed()
	case "ux", "uclose":
		return up != nil && !up.peerClosed && !up.isClosed()
	case "wU":
		return w.queued && up != nil && len(up.wq) > 0 && !up.isClosed()
	case "wD":
		return w.queued && len(s.down.wq) > 0 && !s.down.isClosed()
	}
	return false
}

func (w *c10World) pump() {
	for n := 0; n < 64; n++ {
		progress := false
		for _, s := range w.slots {
			if s.down.deliverInbox() {
				progress = true
			}
			if up := s.up(); up != nil && up.deliverInbox() {
				progress = true
			}
		}
		if !progress {
			return
		}
	}
	panic("c10: pump does not settle")
}

// connect runs the listener's InitializeReadFilters for the slot's (new)
// downstream connection with the given connect script.
func (w *c10World) connect(i int, script []string, nested func()) {
	s := w.slots[i]
	if s.phase != "fresh" {
		s = w.newSlot(i, s.gen+1)
		w.slots[i] = s
	}
	open, _ := w.open()
	prevCur, prevScript := w.cur, w.script
	w.cur, w.script, w.nested = s, append([]string{}, script...), nested
	s.down.fm.InitializeReadFilters()
	w.nested = nil
	w.cur, w.script = prevCur, prevScript
	switch {
	case len(s.created) == 0:
		s.phase = "refused"
	case s.p.upstreamConnection != nil && s.p.upstreamConnection.(*c01Conn).connected:
		s.phase = "ok"
	default:
		s.phase = "failed"
	}
	w.lastOpenBefore, w.lastAttempts, w.lastRefused = open, len(s.created), s.phase == "refused"
}

// driftVec is how far the books are from the model: resource, cluster gauge, one
// gauge per host (address order), and how many connections are open beyond the limit.
func (w *c10World) driftVec() []int64 {
	open, perHost := w.open()
	want := int64(open)
	if w.max == 0 {
		want = 0
	}
	g := w.gauges()
	v := []int64{w.info.ResourceManager().Connections().Cur() - want, g["cluster"] - w.base["cluster"] - int64(open)}
	for _, a := range c10HostAddrs {
		v = append(v, g["host "+a]-w.base["host "+a]-int64(perHost[a]))
	}
	over := int64(0)
	if w.max > 0 && open > int(w.max) {
		over = int64(open - int(w.max))
	}
	return append(v, over)
}

// drift: the same for the canonical state (hosts are interchangeable: sorted).
func (w *c10World) drift() string {
	v := w.driftVec()
	hd := []string{}
	for _, x := range v[2 : len(v)-1] {
		hd = append(hd, fmt.Sprintf("%+d", x))
	}
	sort.Strings(hd)
	return fmt.Sprintf("cur%+d cluster%+d host%s over=%d", v[0], v[1], strings.Join(hd, ","), v[len(v)-1])
}

func c10CauseOf(kind string) string {
	switch kind {
	case "race":
		return "concurrent-accept"
	case "conn-ok-eof":
		return "upstream-eof-during-connect"
	case "conn-fail-ok", "conn-fail-fail":
		return "connect-fail"
	case "conn-timeout-ok", "conn-timeout-timeout":
		return "connect-timeout"
	case "conn-ok":
		return "connect"
	case "dclose", "da":
		return "downstream-" + map[string]string{"dclose": "close", "da": "data"}[kind]
	case "uclose", "ux":
		return "upstream-" + map[string]string{"uclose": "close", "ux": "data"}[kind]
	}
	return "write-loop"
}

// apply runs one (enabled) event, lets the read loops catch up and notes whether
// a book moved AWAY from the model at this event (its kind becomes a cause).
func (w *c10World) apply(e string) {
	before := w.driftVec()
	w.applyEvent(e)
	worse := false
	for i, x := range w.driftVec() {
		abs := func(v int64) int64 {
			if v < 0 {
				return -v
			}
			return v
		}
		if abs(x) > abs(before[i]) {
			worse = true // some book moved further away from the model at this event
		}
	}
	if worse {
		if w.driftCauses == nil {
			w.driftCauses = map[string]bool{}
		}
		kind, _, _ := c10Parse(e)
		w.driftCauses[c10CauseOf(kind)] = true
	}
}

func (w *c10World) causes() string {
	var out []string
	for k := range w.driftCauses {
		out = append(out, k)
	}
	sort.Strings(out)
	if len(out) == 0 {
		return "none"
	}
	return strings.Join(out, "+")
}

func (w *c10World) applyEvent(e string) {
	kind, i, j := c10Parse(e)
	w.lastAttempts = -1
	if kind == "race" {
		w.connect(i, []string{"ok"}, func() { w.connect(j, []string{"ok"}, nil) })
		w.lastAttempts = -1 // admission of the two racing accepts is judged by the limit invariant only
		w.pump()
		return
	}
	if sc, ok := c10ConnectScripts[kind]; ok {
		w.connect(i, sc, nil)
		w.pump()
		return
	}
	s := w.slots[i]
	switch kind {
	case "da":
		s.down.inbox = append(s.down.inbox, c01Item{name: "da", data: []byte("A-1")})
	case "dclose":
		s.down.peerClosed = true
		s.down.inbox = append(s.down.inbox, c01Item{name: "dclose", eof: true})
	case "ux":
		up := s.up()
		up.inbox = append(up.inbox, c01Item{name: "ux", data: []byte("x")})
	case "uclose":
		up := s.up()
		up.peerClosed = true
		up.inbox = append(up.inbox, c01Item{name: "uclose", eof: true})
	case "wU":
		s.up().runWriteLoop()
	case "wD":
		s.down.runWriteLoop()
	}
	w.pump()
}

// drain lets every write loop run until nothing moves any more.
func (w *c10World) drain() {
	for n := 0; ; n++ {
		progress := false
		for _, s := range w.slots {
			if up := s.up(); up != nil && len(up.wq) > 0 && !up.isClosed() {
				up.runWriteLoop()
				progress = true
			}
			if len(s.down.wq) > 0 && !s.down.isClosed() {
				s.down.runWriteLoop()
				progress = true
			}
		}
		w.pump()
		if !progress {
			return
		}
		if n > 64 {
			panic("c10: drain does not settle")
		}
	}
}

func c10ConnCanon(c *c01Conn) string {
	if c == nil {
		return "-"
	}
	var sb strings.Builder
	fmt.Fprintf(&sb, "closed=%v rd=%v/%d peerClosed=%v in=[", c.isClosed(), c.readEnabled, c.readDisableCount, c.peerClosed)
	for _, it := range c.inbox {
		sb.WriteString(it.name + " ")
	}
	sb.WriteString("] wq=[")
	for _, b := range c.wq {
		if b.EOF() {
			sb.WriteString("EOF ")
		} else {
			fmt.Fprintf(&sb, "%d ", b.Len())
		}
	}
	sb.WriteString("]")
	return sb.String()
}

// canon: the slots are interchangeable (same configuration, same cluster), so
// their projections are sorted; per slot: whether it was ever used (the race
// event needs never-used slots), the connect phase and the state of its two
// connections (open/closed, read-enable state, unread peer sends, queued
// writes), plus the counters themselves (resource, gauges relative to the
// model): a state in which a counter has drifted has different futures from
// one in which it has not. Relayed bytes play no part in the accounting.
// Which of the two hosts a connection went to is not part of the key: the
// per-host gauges are judged against the addresses actually used, and the
// balancer's choice does not influence the filter.
func (w *c10World) canon() string {
	var ss []string
	for _, s := range w.slots {
		used := s.gen > 0 || s.phase != "fresh"
		ss = append(ss, fmt.Sprintf("{used=%v %s D{%s} U{%s}}", used, s.phase, c10ConnCanon(s.down), c10ConnCanon(s.up())))
	}
	sort.Strings(ss)
	return strings.Join(ss, " ") + " | " + w.drift() + " causes=" + w.causes()
}

type c10Verdict struct{ key, detail string }

// invariants: evaluated in every state (when is "state" or "quiescent").
func (w *c10World) invariants(when string, hist []string) []c10Verdict {
	var out []c10Verdict
	causes := w.causes()
	add := func(what, detail string) {
		out = append(out, c10Verdict{fmt.Sprintf("tcp-proxy %s; causes=%s", what, causes), fmt.Sprintf("[%s, max_connections=%d] %s", when, w.max, detail)})
	}
	open, perHost := w.open()
	cur := w.info.ResourceManager().Connections().Cur()
	want := int64(open)
	if w.max == 0 {
		want = 0 // resource.Increase/Decrease are no-ops for an unlimited resource
	}
	switch {
	case cur < 0:
		add("resource connections went negative", fmt.Sprintf("Connections().Cur() = %d with %d upstream connections open", cur, open))
	case w.max > 0 && cur > int64(w.max):
		add("resource connections exceeded its configured limit", fmt.Sprintf("Connections().Cur() = %d, %d upstream connections open", cur, open))
	case cur != want && open == 0:
		add("resource connections not back to zero when idle", fmt.Sprintf("Connections().Cur() = %d with no upstream connection open", cur))
	case cur > want:
		add("resource connections counts more than the open upstream connections", fmt.Sprintf("Connections().Cur() = %d, %d upstream connections open", cur, open))
	case cur < want:
		add("resource connections counts fewer than the open upstream connections", fmt.Sprintf("Connections().Cur() = %d, %d upstream connections open", cur, open))
	}
	if w.max > 0 && open > int(w.max) {
		add("more upstream connections open than max_connections", fmt.Sprintf("%d upstream connections are open", open))
	}
	g := w.gauges()
	gauge := func(name string, got int64, want int) {
		switch {
		case got == int64(want):
		case got < 0:
			add("gauge "+name+" upstream_connection_active went negative", fmt.Sprintf("gauge = %d, %d connections open", got, want))
		case want == 0:
			add("gauge "+name+" upstream_connection_active not back to zero when idle", fmt.Sprintf("gauge = %d with no connection open", got))
		default:
			add("gauge "+name+" upstream_connection_active differs from the open upstream connections", fmt.Sprintf("gauge = %d, %d connections open", got, want))
		}
	}
	gauge("cluster", g["cluster"]-w.base["cluster"], open)
	var addrs []string
	for a := range w.hosts {
		addrs = append(addrs, a)
	}
	sort.Strings(addrs)
	for _, a := range addrs {
		gauge("host", g["host "+a]-w.base["host "+a], perHost[a])
	}
	return out
}

// admission: judged right after a connect event, against the model's count of
// open upstream connections (not against the resource: a leaked unit must show
// up as a refusal that should not have happened).
func (w *c10World) admission(hist []string) []c10Verdict {
	if w.lastAttempts < 0 {
		return nil
	}
	causes := w.causes()
	full := w.max > 0 && w.lastOpenBefore >= int(w.max)
	switch {
	case full && !w.lastRefused:
		return []c10Verdict{{"tcp-proxy upstream connect admitted beyond max_connections; causes=" + causes,
			fmt.Sprintf("[max_connections=%d] %d upstream connections were open, the filter still made %d connect attempt(s)", w.max, w.lastOpenBefore, w.lastAttempts)}}
	case !full && w.lastRefused:
		return []c10Verdict{{"tcp-proxy upstream connect refused although capacity is free; causes=" + causes,
			fmt.Sprintf("[max_connections=%d] only %d upstream connections were open (Connections().Cur() = %d), the filter refused the new downstream connection without a connect attempt",
				w.max, w.lastOpenBefore, w.info.ResourceManager().Connections().Cur())}}
	}
	return nil
}

// ---------------------------------------------------------------------------

type c10TCPCase struct {
	Mode    string   `json:"mode"` // "sync" | "queued"
	Max     uint32   `json:"max_connections"`
	Slots   int      `json:"slots"`
	Depth   int      `json:"depth"`
	History []string `json:"history,omitempty"`
}

func c10Replay(c c10TCPCase, hist []string) (w *c10World, harness string) {
	defer func() {
		if r := recover(); r != nil {
			harness = fmt.Sprintf("panic during history %v: %v", hist, r)
		}
	}()
	w = c10NewWorld(c.Mode == "queued", c.Max, c.Slots)
	for i, e := range hist {
		if !w.enabled(e) {
			return w, fmt.Sprintf("replay diverged: event %d (%s) of %v is not enabled", i, e, hist)
		}
		w.apply(e)
	}
	return w, ""
}

// c10Judge: admission of the last event, invariants in the state reached, then
// again after every write queue was drained (quiescence).
func c10Judge(w *c10World, hist []string) (vs []c10Verdict, harness string) {
	defer func() {
		if r := recover(); r != nil {
			harness = fmt.Sprintf("panic while draining after %v: %v", hist, r)
		}
	}()
	vs = append(vs, w.admission(hist)...)
	vs = append(vs, w.invariants("state", hist)...)
	w.drain()
	vs = append(vs, w.invariants("quiescent", hist)...)
	return vs, ""
}

func TestVerifC10TCPAccounting(t *testing.T) {
	p := vreport.Begin("C10", "tcp-proxy-connections-bfs", time.Duration(vreport.Pick(3, 30))*time.Minute)
	depth := vreport.Pick(6, 9)
	gen := func(yield func(c10TCPCase) bool) {
		for _, m := range []string{"sync", "queued"} {
			for _, max := range []uint32{0, 1, 2} {
				slots := 2
				if max == 2 {
					slots = 3 // the third concurrent connection is the one that must be refused
				}
				if !yield(c10TCPCase{Mode: m, Max: max, Slots: slots, Depth: depth}) {
					return
				}
			}
		}
	}
	check := func(p *vreport.Part, c c10TCPCase) {
		tag := fmt.Sprintf("%s/max=%d", c.Mode, c.Max)
		if c.History != nil {
			w, harness := c10Replay(c, c.History)
			if harness == "" {
				var vs []c10Verdict
				vs, harness = c10Judge(w, c.History)
				for _, v := range vs {
					p.Violation(v.key, fmt.Sprintf("%s history %v: %s", tag, c.History, v.detail), c)
				}
			}
			if harness != "" {
				vreport.HarnessError("C10", "tcp-proxy-connections-bfs", harness)
			}
			return
		}
		type node struct {
			hist    []string
			enabled []string
		}
		enabledOf := func(w *c10World) []string {
			var out []string
			for _, e := range w.events() {
				if w.enabled(e) {
					out = append(out, e)
				}
			}
			return out
		}
		w0, harness := c10Replay(c, nil)
		if harness != "" {
			vreport.HarnessError("C10", "tcp-proxy-connections-bfs", harness)
			return
		}
		seen := map[string]bool{w0.canon(): true}
		frontier := []node{{nil, enabledOf(w0)}}
		states, transitions := 1, 0
		defer func() {
			p.AddStates(states)
			p.AddTransitions(transitions)
			p.AddTraces(transitions)
			p.Note("states_"+tag, states)
			p.Note("transitions_"+tag, transitions)
		}()
		for d := 0; d < c.Depth && len(frontier) > 0; d++ {
			var next []node
			for _, n := range frontier {
				for _, e := range n.enabled {
					full := append(append([]string{}, n.hist...), e)
					w, harness := c10Replay(c, full)
					if harness != "" {
						vreport.HarnessError("C10", "tcp-proxy-connections-bfs", tag+": "+harness)
						return
					}
					transitions++
					p.EvalN(1)
					cs := w.canon()
					en := enabledOf(w)
					open, _ := w.open()
					kind, _, _ := c10Parse(e)
					p.Outcome(fmt.Sprintf("%s|%s|open=%d|cur=%d|refused=%v", tag, kind, open, w.info.ResourceManager().Connections().Cur(), w.lastAttempts >= 0 && w.lastRefused))
					if w.lastAttempts >= 0 && w.lastRefused {
						p.Count("connects_refused_"+tag, 1)
						if w.max > 0 && w.lastOpenBefore >= int(w.max) {
							p.Count("limit_trips_"+tag, 1)
						}
					}
					if w.lastAttempts > 0 && w.slots[func() int { _, i, _ := c10Parse(e); return i }()].gen > 0 {
						p.Count("connects_on_reused_slot_"+tag, 1)
					}
					vs, harness := c10Judge(w, full) // drains the queues: w is discarded afterwards
					if harness != "" {
						vreport.HarnessError("C10", "tcp-proxy-connections-bfs", tag+": "+harness)
						return
					}
					for _, v := range vs {
						cc := c
						cc.History = full
						p.Violation(v.key, fmt.Sprintf("%s history %v: %s", tag, full, v.detail), cc)
					}
					if !seen[cs] {
						seen[cs] = true
						states++
						next = append(next, node{full, en})
						p.Distinct(tag + "|" + cs)
						if p.WantSample() {
							p.Sample(map[string]interface{}{"mode": c.Mode, "max_connections": c.Max, "history": strings.Join(full, " "), "state": cs})
						}
					}
					if transitions&255 == 0 && p.Expired() {
						return
					}
				}
			}
			frontier = next
			p.Note(fmt.Sprintf("frontier_%s_depth%d", tag, d+1), len(next))
		}
	}
	complete := vreport.Run(p, gen, check)
	p.End(complete,
		fmt.Sprintf("real streamproxy filters (NewProxy, tcp) on 2 (max_connections 0, 1) / 3 (max_connections 2) downstream connection slots proxied at the same time over one 2-host round-robin cluster of the real cluster manager, max_connections in {0 (unlimited), 1, 2}, both connection models (synchronous writes / write queue); all event histories of depth <= %d over, per slot: {a NEW downstream connection is initialised (slot fresh or all its connections closed) with upstream connect outcomes ok | ok-then-EOF-before-Connect-returns | fail,ok | timeout,ok | fail,fail | timeout,timeout; downstream peer sends | closes; upstream peer sends | closes; upstream / downstream write loop runs} plus {two downstream connections accepted concurrently (second filter's OnNewConnection inside the first one's upstream Connect)}", depth),
		"BFS with canonical-state de-duplication; state = history replayed on a fresh cluster manager + filters + model connections plus one event; canonical state = sorted per-slot projections (used?, connect phase, both connections: closed, read-enable, unread peer sends, queued writes) + the resource value and the drift of every gauge; in EVERY state and again after draining all write queues: Connections().Cur() == open upstream connections (0 when max_connections is 0: Increase/Decrease are no-ops then), never negative, never above max_connections; cluster and per-host UpstreamConnectionActive (delta since the world was built) == open upstream connections (per address); all zero when nothing is open; every connect event is judged against the model: refused without an attempt iff max_connections > 0 and that many upstream connections are open, so a later connection must be admitted once one was released. Counters (…Total, …Close, …ConFail) are not part of the statement and not compared.")
}
