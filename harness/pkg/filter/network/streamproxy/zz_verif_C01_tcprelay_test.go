//go:build verif

// C01 seam (e): the plain TCP proxy relays the byte stream unchanged and in
// order in both directions, including the bytes a peer sent immediately before
// closing.
//
// Explicit-state BFS over the REAL streamproxy read filter (pkg/filter/network/
// streamproxy.proxy, created with NewProxy, upstream connection obtained through
// the real cluster manager TCPConnForCluster -> simpleHost.CreateConnection ->
// network.NewClientConnection -> the registered client connection factory)
// placed between two model connections (c01Conn, zz_verif_common_tcprelay_test.go).
//
// A state is the event history that reaches it; every successor is produced by
// replaying the history on FRESH objects (fresh cluster manager, fresh filter,
// fresh connections) plus one event. The filter runs synchronously on the
// calling goroutine (it starts no goroutine and arms no timer), so every step is
// deterministic.
//
// Environment model (trusted base, mirrors pkg/network/connection.go as read):
//
//   - A peer's sends and its close go into the connection's inbound "socket"
//     queue; they are handed to the connection only while reading is enabled and
//     the connection is open, data first, then the EOF as Close(NoFlush,
//     RemoteClose) — the order of connection.startReadLoop/doRead. Consecutive
//     pending sends are coalesced into one read (what the kernel does).
//     The listener runs InitializeReadFilters before conn.Start (pkg/server/
//     handler.go), so bytes a client sends before the upstream connect completes
//     wait in the socket: this is how "data before connect" is produced.
//   - SetReadDisable mirrors connection.SetReadDisable including its nesting count.
//   - Close(FlushWrite,_) == Write(EOF buffer); otherwise first close wins and
//     listeners get one event; a failed client connection emits no close event.
//   - Write, mode "sync": what connection.writeDirectly does (the default in
//     the tree: checkUseWriteLoop() returns false) — the bytes reach the peer
//     during the call, an EOF buffer closes with (NoFlush, LocalClose).
//   - Write, mode "queued": the connection has a write buffer (connection.
//     startWriteLoop / transfer mode; the api.Connection contract of
//     FlushWrite "flush the write buffer before close" vs NoFlush): Write only
//     enqueues the IoBuffers, the event wU / wD runs the write loop (bytes are
//     taken from the IoBuffers at that moment, as doWriteIo does), a
//     Close(NoFlush,_) drops what is still queued. This is the mode in which
//     "a remote close is propagated only after all earlier bytes were written"
//     has teeth.
package streamproxy

import (
	"bytes"
	"context"
	"fmt"
	"net"
	"strings"
	"testing"
	"time"

	"mosn.io/api"
	v2 "mosn.io/mosn/pkg/config/v2"
	"mosn.io/mosn/pkg/types"
	"mosn.io/mosn/pkg/upstream/cluster"
	"mosn.io/mosn/pkg/verifrt/vreport"
	"mosn.io/pkg/variable"
)

// ---------------------------------------------------------------------------
// world

const c01Cluster = "c01tcp"

// payloads: different lengths, position-dependent content, b and y larger than
// the 1 KiB initial read buffer (forces the read buffer to grow / be reused)
var c01Payload = map[string][]byte{
	"da": []byte("A-1"),
	"db": c01Pattern('b', 1500),
	"ux": []byte("x"),
	"uy": c01Pattern('y', 2100),
}

func c01Pattern(tag byte, n int) []byte {
	out := make([]byte, n)
	for i := range out {
		out[i] = byte(i*7 + int(tag))
	}
	out[0] = tag
	return out
}

type c01World struct {
	queued  bool
	down    *c01Conn
	created []*c01Conn
	script  []string // connect outcomes for the upstream connections to be created
	p       *proxy
	phase   string // "pre" | "ok" | "failed"
}

func c01NewWorld(queued bool) *c01World {
	c01Init()
	w := &c01World{queued: queued, phase: "pre"}
	c01OnCreate = func(remoteAddr net.Addr) *c01Conn {
		c := c01NewConn(fmt.Sprintf("up%d", len(w.created)), true, remoteAddr, w.queued)
		c.outcome = "ok"
		if len(w.script) > 0 {
			c.outcome = w.script[0]
			w.script = w.script[1:]
		}
		w.created = append(w.created, c)
		return c
	}
	if cm := cluster.GetClusterMngAdapterInstance().ClusterManager; cm != nil {
		if d, ok := cm.(interface{ Destroy() }); ok {
			d.Destroy()
		}
	}
	cc := v2.Cluster{Name: c01Cluster, ClusterType: v2.SIMPLE_CLUSTER, LbType: v2.LB_ROUNDROBIN}
	hosts := []v2.Host{
		{HostConfig: v2.HostConfig{Address: "127.0.0.1:21001", Weight: 1}},
		{HostConfig: v2.HostConfig{Address: "127.0.0.1:21002", Weight: 1}},
	}
	cluster.NewClusterManagerSingleton([]v2.Cluster{cc}, map[string][]v2.Host{c01Cluster: hosts}, nil)
	ctx := variable.NewVariableContext(context.Background())
	_ = variable.Set(ctx, types.VariableAccessLogs, []api.AccessLog{})
	w.down = c01NewConn("down", false, c01Addr("127.0.0.1:50001"), queued)
	w.p = NewProxy(ctx, &v2.StreamProxy{Cluster: c01Cluster}, "tcp").(*proxy)
	// what activeListener.newConnection does before conn.Start: build the filter chain ...
	w.down.fm.AddReadFilter(w.p)
	return w
}

// up is the upstream connection the filter relays to (nil before a successful connect).
func (w *c01World) up() *c01Conn {
	if w.phase != "ok" || w.p.upstreamConnection == nil {
		return nil
	}
	c, _ := w.p.upstreamConnection.(*c01Conn)
	return c
}

var c01ConnectScripts = map[string][]string{
	"conn:ok":              {"ok"},
	"conn:fail-ok":         {"fail", "ok"},
	"conn:timeout-ok":      {"timeout", "ok"},
	"conn:fail-fail":       {"fail", "fail"},
	"conn:timeout-timeout": {"timeout", "timeout"},
}

var c01Events = []string{"da", "db", "dclose", "ux", "uy", "uclose",
	"conn:ok", "conn:fail-ok", "conn:timeout-ok", "conn:fail-fail", "conn:timeout-timeout", "wU", "wD"}

func (w *c01World) enabled(e string) bool {
	up := w.up()
	if w.down.isClosed() && (up == nil || up.isClosed()) && w.phase != "pre" {
		return false // terminal: both sides closed
	}
	switch e {
	case "da", "db", "dclose":
		return !w.down.peerClosed && !w.down.isClosed()
	case "ux", "uy", "uclose":
		return up != nil && !up.peerClosed && !up.isClosed()
	case "wU":
		return w.queued && up != nil && len(up.wq) > 0 && !up.isClosed()
	case "wD":
		return w.queued && len(w.down.wq) > 0 && !w.down.isClosed()
	default:
		_, ok := c01ConnectScripts[e]
		return ok && w.phase == "pre"
	}
}

func (w *c01World) pump() {
	for i := 0; i < 64; i++ {
		progress := w.down.deliverInbox()
		if up := w.up(); up != nil {
			if up.deliverInbox() {
				progress = true
			}
		}
		if !progress {
			return
		}
	}
	panic("c01: pump does not settle")
}

// apply runs one (enabled) event and lets the read loops catch up.
func (w *c01World) apply(e string) {
	switch e {
	case "da", "db":
		w.down.inbox = append(w.down.inbox, c01Item{name: e, data: c01Payload[e]})
	case "dclose":
		w.down.peerClosed = true
		w.down.inbox = append(w.down.inbox, c01Item{name: e, eof: true})
	case "ux", "uy":
		up := w.up()
		up.inbox = append(up.inbox, c01Item{name: e, data: c01Payload[e]})
	case "uclose":
		up := w.up()
		up.peerClosed = true
		up.inbox = append(up.inbox, c01Item{name: e, eof: true})
	case "wU":
		w.up().runWriteLoop()
	case "wD":
		w.down.runWriteLoop()
	default:
		w.script = append([]string{}, c01ConnectScripts[e]...)
		// ... then InitializeReadFilters (OnNewConnection connects upstream), then conn.Start
		w.down.fm.InitializeReadFilters()
		w.phase = "failed"
		if uc, _ := w.p.upstreamConnection.(*c01Conn); uc != nil && uc.connected {
			w.phase = "ok"
		}
	}
	w.pump()
}

func c01Cap(n, c int) int {
	if n > c {
		return c
	}
	return n
}

func c01ConnCanon(c *c01Conn) string {
	if c == nil {
		return "-"
	}
	var sb strings.Builder
	fmt.Fprintf(&sb, "closed=%v/%s rd=%v/%d peerClosed=%v reads=%d in=[", c.isClosed(), c.closeBy, c.readEnabled, c.readDisableCount, c.peerClosed, c01Cap(c.reads, 3))
	for _, it := range c.inbox {
		sb.WriteString(it.name + " ")
	}
	sb.WriteString("] wq=[")
	for _, b := range c.wq {
		if b.EOF() {
			sb.WriteString("EOF ")
		} else {
			fmt.Fprintf(&sb, "%x ", b.Bytes())
		}
	}
	sb.WriteString("]")
	return sb.String()
}

// canon is the canonical state. Merged states have the same futures because the
// filter keeps no content of its own: every OnData hands a clone of the read
// buffer to the other connection and drains it; its remaining state is the two
// connection references and requestInfo byte counters that the relay path never
// reads back. What decides the future is therefore the state of the two
// connections: open/closed (and who closed), read-enable state, what the peers
// sent that is not read yet, what is queued for writing (content included), and
// whether the upstream connect happened. The relayed prefix itself is judged in
// the state that produced it and is not part of the key; the number of reads
// per direction is kept up to 3 so that the second, third and fourth relayed buffers of
// a direction are explored as well (read-buffer reuse).
func (w *c01World) canon() string {
	return w.phase + " D{" + c01ConnCanon(w.down) + "} U{" + c01ConnCanon(w.up()) + "}"
}

type c01Verdict struct{ key, detail string }

func c01Short(b []byte) string {
	if len(b) <= 24 {
		return fmt.Sprintf("%q", b)
	}
	return fmt.Sprintf("%q…(%d bytes)", b[:24], len(b))
}

// judgeDir checks one direction: src is where the bytes were read, dst where
// they must come out. final: every write queue has been drained.
func c01JudgeDir(mode, dir string, src, dst *c01Conn, final bool) *c01Verdict {
	if dst == nil {
		if src != nil && len(src.read) > 0 {
			return &c01Verdict{fmt.Sprintf("tcp-relay mode=%s dir=%s bytes-read-without-an-upstream-connection", mode, dir),
				fmt.Sprintf("read %s from the source although no upstream connection was established", c01Short(src.read))}
		}
		return nil
	}
	var R []byte
	if src != nil {
		R = src.read
	}
	W := dst.delivered
	if !bytes.HasPrefix(R, W) {
		if bytes.HasPrefix(W, R) {
			return &c01Verdict{fmt.Sprintf("tcp-relay mode=%s dir=%s extra-or-duplicated-bytes", mode, dir),
				fmt.Sprintf("read %d bytes from the source, %d bytes reached the destination: surplus %s", len(R), len(W), c01Short(W[len(R):]))}
		}
		i := 0
		for i < len(R) && i < len(W) && R[i] == W[i] {
			i++
		}
		return &c01Verdict{fmt.Sprintf("tcp-relay mode=%s dir=%s bytes-altered-or-reordered", mode, dir),
			fmt.Sprintf("first difference at offset %d: read %s, destination got %s", i, c01Short(R[i:]), c01Short(W[i:]))}
	}
	if final && len(W) < len(R) && !dst.peerClosed {
		// the destination's peer never closed: everything read must have reached it
		what := "bytes-lost"
		if dst.isClosed() {
			what = "bytes-lost-destination-closed-by-the-proxy-before-earlier-bytes-were-written"
		}
		return &c01Verdict{fmt.Sprintf("tcp-relay mode=%s dir=%s %s", mode, dir, what),
			fmt.Sprintf("read %d bytes from the source, only %d reached the destination (destination closed=%v by %s, %d queued bytes dropped at close); missing %s",
				len(R), len(W), dst.isClosed(), dst.closeBy, dst.droppedOnClose, c01Short(R[len(W):]))}
	}
	return nil
}

func (w *c01World) modeName() string {
	if w.queued {
		return "queued"
	}
	return "sync"
}

// judge evaluates the oracle in the current state, then drains every write
// queue (the write loops get to run) and evaluates it at quiescence.
//
//	(1) always: the bytes that reached a side are a prefix of the bytes read
//	    from the other side (nothing altered, reordered, duplicated);
//	(2) at quiescence: if a side's own peer did not close it, everything read
//	    from the other side reached it — in particular the bytes the other peer
//	    sent immediately before closing, and the bytes that arrived before the
//	    upstream connect completed. (If the destination's own peer closed, the
//	    tail cannot be delivered and only (1) is demanded.)
//
// Whether and when a close is propagated is enumerated (outcomes) but not
// compared: the statement only speaks about the bytes.
func (w *c01World) judge() *c01Verdict {
	mode := w.modeName()
	var upAny *c01Conn = w.up()
	if upAny == nil {
		// before/without a successful connect nothing may be read or written
		for _, c := range w.created {
			if len(c.delivered) > 0 {
				return &c01Verdict{fmt.Sprintf("tcp-relay mode=%s dir=down->up bytes-written-to-a-connection-that-is-not-the-upstream", mode), c.name + " got " + c01Short(c.delivered)}
			}
		}
	}
	if v := c01JudgeDir(mode, "down->up", w.down, upAny, false); v != nil {
		return v
	}
	if v := c01JudgeDir(mode, "up->down", upAny, w.down, false); v != nil {
		return v
	}
	// quiescence
	for i := 0; ; i++ {
		progress := false
		if up := w.up(); up != nil && len(up.wq) > 0 && !up.isClosed() {
			up.runWriteLoop()
			progress = true
		}
		if len(w.down.wq) > 0 && !w.down.isClosed() {
			w.down.runWriteLoop()
			progress = true
		}
		w.pump()
		if !progress {
			break
		}
		if i > 64 {
			panic("c01: drain does not settle")
		}
	}
	if v := c01JudgeDir(mode, "down->up", w.down, w.up(), true); v != nil {
		return v
	}
	if v := c01JudgeDir(mode, "up->down", w.up(), w.down, true); v != nil {
		return v
	}
	return nil
}

func (w *c01World) outcome() string {
	f := func(c *c01Conn) string {
		if c == nil {
			return "-"
		}
		return fmt.Sprintf("closed=%v/%s ev=%v r=%d w=%d", c.isClosed(), c.closeBy, c.events, len(c.read), len(c.delivered))
	}
	return w.phase + " D:" + f(w.down) + " U:" + f(w.up())
}

// ---------------------------------------------------------------------------

type c01TCPCase struct {
	Mode    string   `json:"mode"` // "sync" | "queued"
	Depth   int      `json:"depth"`
	History []string `json:"history,omitempty"` // replay of one recorded history
}

// c01Replay builds a fresh world and applies hist; it fails (harness error
// text) if an event of hist is not enabled when its turn comes or if the code
// under test panics (the statement does not speak about panics; none is expected).
func c01Replay(queued bool, hist []string) (w *c01World, harness string) {
	defer func() {
		if r := recover(); r != nil {
			harness = fmt.Sprintf("panic during history %v: %v", hist, r)
		}
	}()
	w = c01NewWorld(queued)
	for i, e := range hist {
		if !w.enabled(e) {
			return w, fmt.Sprintf("replay diverged: event %d (%s) of %v is not enabled", i, e, hist)
		}
		w.apply(e)
	}
	return w, ""
}

func c01Judge(w *c01World) (v *c01Verdict, harness string) {
	defer func() {
		if r := recover(); r != nil {
			harness = fmt.Sprintf("panic while draining: %v", r)
		}
	}()
	return w.judge(), ""
}

func TestVerifC01TCPRelay(t *testing.T) {
	p := vreport.Begin("C01", "tcp-relay-bfs", time.Duration(vreport.Pick(3, 20))*time.Minute)
	depth := vreport.Pick(7, 10)

	gen := func(yield func(c01TCPCase) bool) {
		for _, m := range []string{"sync", "queued"} {
			if !yield(c01TCPCase{Mode: m, Depth: depth}) {
				return
			}
		}
	}

	check := func(p *vreport.Part, c c01TCPCase) {
		queued := c.Mode == "queued"
		if c.History != nil {
			w, harness := c01Replay(queued, c.History)
			if harness == "" {
				var v *c01Verdict
				if v, harness = c01Judge(w); v != nil {
					p.Violation(v.key, fmt.Sprintf("history %v: %s", c.History, v.detail), c)
				}
			}
			if harness != "" {
				vreport.HarnessError("C01", "tcp-relay-bfs", harness)
			}
			return
		}
		type node struct {
			hist    []string
			enabled []string
		}
		enabledOf := func(w *c01World) []string {
			var out []string
			for _, e := range c01Events {
				if w.enabled(e) {
					out = append(out, e)
				}
			}
			return out
		}
		w0, harness := c01Replay(queued, nil)
		if harness != "" {
			vreport.HarnessError("C01", "tcp-relay-bfs", harness)
			return
		}
		seen := map[string]bool{w0.canon(): true}
		frontier := []node{{nil, enabledOf(w0)}}
		states, transitions := 1, 0
		defer func() {
			p.AddStates(states)
			p.AddTransitions(transitions)
			p.AddTraces(transitions)
			p.Note("states_"+c.Mode, states)
			p.Note("transitions_"+c.Mode, transitions)
		}()
		for d := 0; d < c.Depth && len(frontier) > 0; d++ {
			var next []node
			for _, n := range frontier {
				for _, e := range n.enabled {
					full := append(append([]string{}, n.hist...), e)
					w, harness := c01Replay(queued, full)
					if harness != "" {
						vreport.HarnessError("C01", "tcp-relay-bfs", c.Mode+": "+harness)
						return
					}
					transitions++
					p.EvalN(1)
					cs := w.canon()
					en := enabledOf(w)
					p.Outcome(c.Mode + "|" + w.outcome())
					v, harness := c01Judge(w) // drains the queues: w is discarded afterwards
					if harness != "" {
						vreport.HarnessError("C01", "tcp-relay-bfs", fmt.Sprintf("%s: history %v: %s", c.Mode, full, harness))
						return
					}
					if v != nil {
						cc := c
						cc.History = full
						p.Violation(v.key, fmt.Sprintf("history %v: %s", full, v.detail), cc)
					}
					if !seen[cs] {
						seen[cs] = true
						states++
						next = append(next, node{full, en})
						p.Distinct(c.Mode + "|" + cs)
						if p.WantSample() {
							p.Sample(map[string]interface{}{"mode": c.Mode, "history": strings.Join(full, " "), "state": cs, "final": w.outcome()})
						}
					}
					if transitions&255 == 0 && p.Expired() {
						return
					}
				}
			}
			frontier = next
			p.Note(fmt.Sprintf("frontier_%s_depth%d", c.Mode, d+1), len(next))
		}
	}

	complete := vreport.Run(p, gen, check)
	p.End(complete,
		fmt.Sprintf("real streamproxy filter (NewProxy, tcp) between two model connections, upstream through the real cluster manager / simpleHost.CreateConnection / client connection factory (2 hosts, round robin); all event histories of depth <= %d over {downstream peer sends a (3 B) | b (1500 B) | closes; upstream peer sends x (1 B) | y (2100 B) | closes; listener initialises the filter with upstream connect outcomes ok | fail,ok | timeout,ok | fail,fail | timeout,timeout; (mode queued) upstream / downstream write loop runs}; two connection models: writes reach the peer synchronously (the tree's default) and writes queued in a write buffer that Close(NoFlush) drops", depth),
		"BFS with canonical-state de-duplication; state = history replayed on a fresh cluster manager + filter + connections plus one event; canonical state = (connect phase; per connection: closed + by whom, read-enable state, unread peer sends, queued writes with content, peer closed, number of reads capped at 3); the relayed bytes are judged in every state and again after all write queues were drained: delivered bytes must be a prefix of the bytes read from the other side, and equal to them at quiescence unless the destination's own peer closed; close propagation itself is enumerated, not compared")
}
