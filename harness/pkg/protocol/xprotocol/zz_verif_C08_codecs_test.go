//go:build verif

package xprotocol_test

// C08 unit "xcodecs": malformed input is contained by each xprotocol codec's
// Decode (bolt, boltv2, dubbo, dubbo-thrift, tars) and protocol matcher.
//
// Seam: api.XProtocol.Decode(ctx, IoBuffer) of the codec obtained exactly as the
// stream layer obtains it (XProtocolCodec.NewXProtocol) with a stream context
// built like stream.ContextManager builds it, and XProtocolCodec.ProtocolMatch().
//
// Frames are hand-written from the wire layouts documented in the protocol
// files (bolt*/protocol.go, dubbo/protocol.go, dubbothrift/protocol.go) and, for
// tars, produced by TarsGo's own writer; the part "codec-alphabet-valid" checks
// that each of them decodes into a frame that consumes exactly its bytes.

import (
	"context"
	"fmt"
	"os"
	"sort"
	"strings"
	"testing"
	"time"

	"mosn.io/api"
	"mosn.io/pkg/buffer"
	"mosn.io/pkg/variable"

	"mosn.io/mosn/pkg/protocol/xprotocol/bolt"
	"mosn.io/mosn/pkg/protocol/xprotocol/boltv2"
	"mosn.io/mosn/pkg/protocol/xprotocol/dubbo"
	"mosn.io/mosn/pkg/protocol/xprotocol/dubbothrift"
	"mosn.io/mosn/pkg/protocol/xprotocol/internal/registry"
	"mosn.io/mosn/pkg/protocol/xprotocol/tars"
	"mosn.io/mosn/pkg/types"
	"mosn.io/mosn/pkg/verifrt/c08"
	"mosn.io/mosn/pkg/verifrt/vreport"
)

var c08Codecs = map[string]api.XProtocolCodec{}

func init() {
	// bolt and boltv2 delegate to each other through the internal registry, as in production where
	// both are registered; the registration through xprotocol.RegisterXProtocolCodec additionally needs
	// the stream package (not under test here).
	for _, c := range []api.XProtocolCodec{&bolt.XCodec{}, &boltv2.XCodec{}, &dubbo.XCodec{}, &dubbothrift.XCodec{}, &tars.XCodec{}} {
		if registry.GetXProtocolCodec(c.ProtocolName()) == nil {
			_ = registry.RegisterXProtocolCodec(c.ProtocolName(), c)
		}
		c08Codecs[string(c.ProtocolName())] = registry.GetXProtocolCodec(c.ProtocolName())
	}
}

// ---------------------------------------------------------------- outcome

func c08DumpFrame(f interface{}) string {
	if f == nil {
		return "nil"
	}
	xf, ok := f.(api.XFrame)
	if !ok {
		return fmt.Sprintf("non-XFrame %T", f)
	}
	var sb strings.Builder
	fmt.Fprintf(&sb, "%T id=%d type=%d hb=%v timeout=%d", f, xf.GetRequestId(), xf.GetStreamType(), xf.IsHeartbeatFrame(), xf.GetTimeout())
	if rf, ok := f.(api.XRespFrame); ok {
		fmt.Fprintf(&sb, " status=%d", rf.GetStatusCode())
	}
	var kvs []string
	if h := xf.GetHeader(); h != nil {
		h.Range(func(k, v string) bool {
			kvs = append(kvs, fmt.Sprintf("%q=%q", k, v))
			return true
		})
	}
	sort.Strings(kvs)
	fmt.Fprintf(&sb, " headers=[%s]", strings.Join(kvs, ","))
	if d := xf.GetData(); d != nil {
		fmt.Fprintf(&sb, " data=%x", d.Bytes())
	} else {
		sb.WriteString(" data=nil")
	}
	return sb.String()
}

func c08FirstLine(s string) string {
	if i := strings.IndexByte(s, '\n'); i >= 0 {
		s = s[:i]
	}
	if len(s) > 600 {
		s = s[:600]
	}
	return s
}

// c08ExecCodec runs Decode and the matcher of the case's target on buf.
func c08ExecCodec(c c08.Case, buf []byte) string {
	name, listener := c.Target, ""
	if i := strings.IndexByte(name, '/'); i >= 0 {
		name, listener = c.Target[:i], c.Target[i+1:]
	}
	cd := c08Codecs[name]
	if name == "tars" && c08.TarsAbsurdMapCount(buf) {
		return "not-run (announced map size > 2^24: findings/C08.md F5 - sizes up to 2^24 are executed under the cost oracle)"
	}
	// stream-level context as stream.ContextManager.Next builds it
	ctx := buffer.NewBufferPoolContext(context.Background())
	ctx = variable.NewVariableContext(ctx)
	if listener != "" {
		_ = variable.Set(ctx, types.VariableListenerName, listener)
	}
	proto := cd.NewXProtocol(ctx)
	io := buffer.NewIoBufferBytes(buf)
	frame, err := proto.Decode(ctx, io)
	var out string
	switch {
	case err != nil:
		out = fmt.Sprintf("error rest=%d frame={%s} err=%s", io.Len(), c08DumpFrame(frame), c08FirstLine(err.Error()))
	case frame == nil:
		out = fmt.Sprintf("more rest=%d", io.Len())
	default:
		out = fmt.Sprintf("frame rest=%d {%s}", io.Len(), c08DumpFrame(frame))
	}
	m := cd.ProtocolMatch()(buf)
	out += fmt.Sprintf(" match=%d", m)
	if c.Class == "hdrgrid" {
		// header pairs in the order the frame hands them out (compared with the reference parse by c08JudgeCodec)
		var kvs []string
		if xf, ok := frame.(api.XFrame); ok && xf.GetHeader() != nil {
			xf.GetHeader().Range(func(k, v string) bool { kvs = append(kvs, fmt.Sprintf("%q=%q", k, v)); return true })
		}
		out += " ordered=[" + strings.Join(kvs, ",") + "]"
	}
	if bv := buffer.PoolContext(ctx); bv != nil {
		bv.Give()
	}
	return out
}

// c08JudgeCodec: the differential of the header-block grid. A bolt/boltv2 frame that Decode ACCEPTS (a
// frame and no error) must carry exactly the key/value pairs an independent reference parse of its header
// block yields; a block the reference parse rejects must not be accepted. (Frames returned together with an
// error, and "need more", are not compared.)
func c08JudgeCodec(c c08.Case, out string) (string, string) {
	if c.Class != "hdrgrid" || !strings.HasPrefix(out, "frame ") {
		return "", ""
	}
	i := strings.LastIndex(out, " ordered=[")
	if i < 0 {
		return "", ""
	}
	got := out[i+len(" ordered=[") : len(out)-1]
	ref, accept, ok := c08.BoltHeaderRef(c.Input())
	if !ok {
		return "", ""
	}
	if !accept {
		return fmt.Sprintf("%s class=%s header block accepted although an independent reference parse rejects it", c.Target, c.Class),
			fmt.Sprintf("Decode returned a frame without error, headers [%s]; the header block is malformed (length that does not fit / key without value / dangling bytes); %s; input=%s", got, c.Desc, c.Hex)
	}
	if want := strings.Join(ref, ","); got != want {
		return fmt.Sprintf("%s class=%s accepted header block yields other key/value pairs than an independent reference parse", c.Target, c.Class),
			fmt.Sprintf("Decode returned a frame without error with headers [%s]; the reference parse of the same block yields [%s] (validator and parser do not walk the block alike); %s; input=%s", got, want, c.Desc, c.Hex)
	}
	return "", ""
}

// ---------------------------------------------------------------- parts

type c08Target struct {
	name   string
	frames []c08.Frame
	magics [][]byte
	grid   func(target string, yield func(c08.Case) bool) bool // constructed frames (optional)
}

func c08Gen(ts []c08Target) func(yield func(c08.Case) bool) {
	return func(yield func(c08.Case) bool) {
		for _, tg := range ts {
			if tg.magics != nil {
				if !c08.ShortStrings(tg.name, tg.magics, yield) {
					return
				}
			}
			for _, f := range tg.frames {
				if !c08.Mutations(tg.name, f, yield) {
					return
				}
			}
			// path-selecting bytes (command type, flag byte, TLV heads ...) x length-field boundary values
			for _, f := range tg.frames {
				if !c08.SelectorMutations(tg.name, f, yield) {
					return
				}
			}
			// element counts (map sizes, vector lengths) far beyond what the input can hold
			for _, f := range tg.frames {
				if !c08.CountMutations(tg.name, f, yield) {
					return
				}
			}
			if tg.grid != nil && !tg.grid(tg.name, yield) {
				return
			}
		}
	}
}

const c08Bound = "per codec: every frame of the alphabet x {every truncation; every length field x {0,1,2,3,true-1,true+1,2^16-1,2^31-1,2^31,2^32-1} (clamped to the field width); every byte x {0x00,0xFF,^b} (thorough: x all 256 values); every block +1..3 bytes of {00,01,FF} and -1..3 bytes with lengths adjusted; 1..3 trailing bytes}; all byte strings of length <=2; all 3-byte strings starting with the protocol magic; every path-selecting byte (bolt: protocol code, command type, command code, codec, v2 switch; dubbo: flag, status; dubbo-thrift: version, strict-version bytes, message type; tars: the head byte of every length-carrying TLV, SIMPLE_LIST element type, head of every size INT) x all 256 values, and x {0..7, single bits, single cleared bits, 0xFF, single-bit flips of the true value, true+-1} x every length field (tars: the TLV's own length and the packet length) x the length boundary set; constructed grids: bolt/boltv2 {cmdType 0..3} x {cmdCode 0..2} x classLen {0,1,2} x headerLen {0,1,3,4,5,8,9,10} x contentLen {0,1,2} x 2 header fills x {complete, -1 byte, +1 byte}; dubbo {all 256 flag bytes} x status {0,20,255} x 7 payloads (request payload cut to 0,1,2,3,len-1,len bytes; null), each for the 3 listener configurations; every 4-byte element count (tars map sizes and vector lengths, the hessian list length) x {2^24, 2^22, 2^20}; bolt/boltv2 header-block grid: every sequence of <= 4 length-prefixed strings whose announced length is one of {0xFFFFFFFF, 0, 1, 2, exactly the remaining bytes, remaining+1, 0x7FFFFFFF, 0x80000000} (the relative and absurd ones with 0 or 1 own bytes) x {no, one} dangling byte x {request, one-way, response} x header length field {right, -1, +1}; dubbo attachment grid: 'H' + every sequence of <= 3 hessian2 strings with announced length {0,1,2,remaining,remaining+1,31,2-byte form,'S' 65535} + {'Z', nothing}; tars map grid: {request, response} x 10 encodings of each of the two map fields x {ascending, swapped, first repeated}"
const c08Rule = "each input is decoded three times through XProtocol.Decode + ProtocolMatch (exact-capacity buffer, 4096 spare bytes of 0xA5, of 0x3C); distinct = distinct input bytes per target; outcome = (target, class, frame|more|error|panic). Oracle: no panic escapes (a panic the codec recovers and returns as an error is allowed); outcomes with different poison identical; TotalAlloc delta of a call <= 1MiB+32*len(input) (confirmed by the minimum of 3 re-measurements); the call returns (60s; or >300ms with >128MiB in use and growing). What a decoder returns for a corrupted frame (frame vs error vs more) is NOT compared. Cost: the minimum thread CPU time (CLOCK_THREAD_CPUTIME_ID of the locked OS thread) over the three executions of an input <= 1 KiB must not exceed 100 ms (replay: 50 ms). tars inputs announcing a map size > 2^24 in a 4-byte INT are not executed (kind not-run; findings/C08.md F5); sizes up to 2^24 are. Header-block grid only: a bolt/boltv2 frame accepted without error must carry exactly the key/value pairs (in order) an independent reference parse of its header block yields, and a block that parse rejects must not be accepted."

func c08Run(t *testing.T, part string, ts []c08Target) {
	budget := time.Duration(vreport.Pick(4, 20)) * time.Minute
	if part == "tars" {
		// on the unfixed tree the LIST-encoded body with a large announced length costs ~15 s and 2 GiB per
		// call; the thorough tier (all 256 values of every byte) would spend most of an hour there
		budget = time.Duration(vreport.Pick(4, 8)) * time.Minute
	}
	c08.Main(t, c08.Spec{Prop: "C08", Part: part, Budget: budget,
		Gen: c08Gen(ts), Exec: c08ExecCodec, Judge: c08JudgeCodec,
		NoAlloc: func(c c08.Case) bool { return c.Class == "short" && !vreport.Thorough() },
		Bound:   c08Bound, Rule: c08Rule})
}

func TestVerifC08Bolt(t *testing.T) {
	t.Parallel()
	c08Run(t, "bolt", []c08Target{{"bolt", c08.BoltFrames(false), [][]byte{{0x01}},
		func(tg string, y func(c08.Case) bool) bool {
			return c08.BoltGrid(tg, false, y) && c08.BoltHeaderGrid(tg, false, 4, true, y)
		}}})
}

func TestVerifC08BoltV2(t *testing.T) {
	t.Parallel()
	c08Run(t, "boltv2", []c08Target{{"boltv2", c08.BoltFrames(true), [][]byte{{0x02}},
		func(tg string, y func(c08.Case) bool) bool {
			return c08.BoltGrid(tg, true, y) && c08.BoltHeaderGrid(tg, true, 4, true, y)
		}}})
}

func c08DubboGrids(tg string, y func(c08.Case) bool) bool {
	return c08.DubboGrid(tg, y) && c08.DubboAttachmentGrid(tg, y)
}

func TestVerifC08Dubbo(t *testing.T) {
	t.Parallel()
	// the decoder's behaviour depends on the listener name variable (attachment parsing)
	c08Run(t, "dubbo", []c08Target{
		{"dubbo", c08.DubboFrames(), [][]byte{{0xda, 0xbb}}, c08DubboGrids},
		{"dubbo/" + dubbo.IngressDubbo, c08.DubboFrames(), nil, c08DubboGrids},
		{"dubbo/" + dubbo.EgressDubbo, c08.DubboFrames(), nil, c08DubboGrids},
	})
}

func TestVerifC08DubboThrift(t *testing.T) {
	t.Parallel()
	c08Run(t, "dubbothrift", []c08Target{{"dubbo-thrift", c08.ThriftFrames(), [][]byte{{0xda, 0xbc}}, nil}})
}

func TestVerifC08Tars(t *testing.T) {
	t.Parallel()
	// tars has no magic; the matcher keys on byte 4 == 0x10 (iVersion head); 0x00 0x00 is the top of every sane length prefix
	c08Run(t, "tars", []c08Target{{"tars", c08.TarsFrames(), [][]byte{{0x00, 0x00}, {0x10}}, c08.TarsMapGrid}})
}

// Vacuity guard: every frame of the alphabets decodes to a frame consuming exactly its bytes.
func TestVerifC08Alphabet(t *testing.T) {
	if vreport.Replaying() || os.Getenv("C08_CHILD") != "" {
		return
	}
	p := vreport.Begin("C08", "codec-alphabet-valid", time.Minute)
	all := []c08Target{{"bolt", c08.BoltFrames(false), nil, nil}, {"boltv2", c08.BoltFrames(true), nil, nil}, {"dubbo", c08.DubboFrames(), nil, nil},
		{"dubbo/" + dubbo.IngressDubbo, c08.DubboFrames(), nil, nil}, {"dubbo-thrift", c08.ThriftFrames(), nil, nil}, {"tars", c08.TarsFrames(), nil, nil}}
	for _, tg := range all {
		for _, f := range tg.frames {
			p.Eval()
			out := c08ExecCodec(c08.Case{Target: tg.name}, append([]byte(nil), f.Bytes...))
			p.Distinct(tg.name + f.Name)
			p.Outcome(strings.SplitN(out, " ", 2)[0])
			if tg.name == "tars" && len(f.Bytes) >= 256 && !strings.HasPrefix(out, "frame rest=0 ") {
				// before commit 3d58f0b70 tars/decoder.go handed the 4-byte length prefix to the TLV reader and
				// rejected most frames of 256 bytes and more (any frame with a STRING4): a C01/C07 matter, not
				// C08 - tolerated here so that the check also runs on such a tree; the frame stays in the
				// alphabet (its corruptions are inputs like any other).
				p.Count("tars frames >=256 bytes rejected by the decoder (C01/C07 defect)", 1)
				continue
			}
			if !strings.HasPrefix(out, "frame rest=0 ") {
				vreport.HarnessError("C08", "codec-alphabet-valid", fmt.Sprintf("alphabet frame %s/%q does not decode to a frame: %s", tg.name, f.Name, out))
			}
			if p.WantSample() {
				p.Sample(map[string]string{"target": tg.name, "frame": f.Name, "hex": fmt.Sprintf("%x", f.Bytes), "decoded": out})
			}
		}
	}
	p.End(true, "every frame of every codec alphabet", "sanity: the unmutated frames are valid for the real decoders")
}
