//go:build verif

package xprotocol_test

// C08 unit "xcodecs": malformed input is contained by each xprotocol codec's
// Decode (bolt, boltv2, dubbo, dubbo-thrift, tars) and protocol matcher.
//
// Seam: api.XProtocol.Decode(ctx, IoBuffer) of the codec obtained exactly as the
// stream layer obtains it (XProtocolCodec.NewXProtocol) with a stream context
// built like stream.ContextManager builds it, and XProtocolCodec.ProtocolMatch().
//
// Frames are hand-written from the wire layouts documented in the protocol
// files (bolt*/protocol.go, dubbo/protocol.go, dubbothrift/protocol.go) and, for
// tars, produced by TarsGo's own writer; the part "codec-alphabet-valid" checks
// that each of them decodes into a frame that consumes exactly its bytes.

import (
	"context"
	"encoding/binary"
	"fmt"
	"os"
	"sort"
	"strings"
	"testing"
	"time"

	"github.com/TarsCloud/TarsGo/tars/protocol/codec"
	"github.com/TarsCloud/TarsGo/tars/protocol/res/requestf"
	"mosn.io/api"
	"mosn.io/pkg/buffer"
	"mosn.io/pkg/variable"

	"mosn.io/mosn/pkg/protocol/xprotocol/bolt"
	"mosn.io/mosn/pkg/protocol/xprotocol/boltv2"
	"mosn.io/mosn/pkg/protocol/xprotocol/dubbo"
	"mosn.io/mosn/pkg/protocol/xprotocol/dubbothrift"
	"mosn.io/mosn/pkg/protocol/xprotocol/internal/registry"
	"mosn.io/mosn/pkg/protocol/xprotocol/tars"
	"mosn.io/mosn/pkg/types"
	"mosn.io/mosn/pkg/verifrt/c08"
	"mosn.io/mosn/pkg/verifrt/vreport"
)

var c08Codecs = map[string]api.XProtocolCodec{}

func init() {
	// bolt and boltv2 delegate to each other through the internal registry, as in production where
	// both are registered; the registration through xprotocol.RegisterXProtocolCodec additionally needs
	// the stream package (not under test here).
	for _, c := range []api.XProtocolCodec{&bolt.XCodec{}, &boltv2.XCodec{}, &dubbo.XCodec{}, &dubbothrift.XCodec{}, &tars.XCodec{}} {
		if registry.GetXProtocolCodec(c.ProtocolName()) == nil {
			_ = registry.RegisterXProtocolCodec(c.ProtocolName(), c)
		}
		c08Codecs[string(c.ProtocolName())] = registry.GetXProtocolCodec(c.ProtocolName())
	}
}

// ---------------------------------------------------------------- outcome

func c08DumpFrame(f interface{}) string {
	if f == nil {
		return "nil"
	}
	xf, ok := f.(api.XFrame)
	if !ok {
		return fmt.Sprintf("non-XFrame %T", f)
	}
	var sb strings.Builder
	fmt.Fprintf(&sb, "%T id=%d type=%d hb=%v timeout=%d", f, xf.GetRequestId(), xf.GetStreamType(), xf.IsHeartbeatFrame(), xf.GetTimeout())
	if rf, ok := f.(api.XRespFrame); ok {
		fmt.Fprintf(&sb, " status=%d", rf.GetStatusCode())
	}
	var kvs []string
	if h := xf.GetHeader(); h != nil {
		h.Range(func(k, v string) bool {
			kvs = append(kvs, fmt.Sprintf("%q=%q", k, v))
			return true
		})
	}
	sort.Strings(kvs)
	fmt.Fprintf(&sb, " headers=[%s]", strings.Join(kvs, ","))
	if d := xf.GetData(); d != nil {
		fmt.Fprintf(&sb, " data=%x", d.Bytes())
	} else {
		sb.WriteString(" data=nil")
	}
	return sb.String()
}

func c08FirstLine(s string) string {
	if i := strings.IndexByte(s, '\n'); i >= 0 {
		s = s[:i]
	}
	if len(s) > 600 {
		s = s[:600]
	}
	return s
}

// c08ExecCodec runs Decode and the matcher of the case's target on buf.
func c08ExecCodec(c c08.Case, buf []byte) string {
	name, listener := c.Target, ""
	if i := strings.IndexByte(name, '/'); i >= 0 {
		name, listener = c.Target[:i], c.Target[i+1:]
	}
	cd := c08Codecs[name]
	// stream-level context as stream.ContextManager.Next builds it
	ctx := buffer.NewBufferPoolContext(context.Background())
	ctx = variable.NewVariableContext(ctx)
	if listener != "" {
		_ = variable.Set(ctx, types.VariableListenerName, listener)
	}
	proto := cd.NewXProtocol(ctx)
	io := buffer.NewIoBufferBytes(buf)
	frame, err := proto.Decode(ctx, io)
	var out string
	switch {
	case err != nil:
		out = fmt.Sprintf("error rest=%d frame={%s} err=%s", io.Len(), c08DumpFrame(frame), c08FirstLine(err.Error()))
	case frame == nil:
		out = fmt.Sprintf("more rest=%d", io.Len())
	default:
		out = fmt.Sprintf("frame rest=%d {%s}", io.Len(), c08DumpFrame(frame))
	}
	m := cd.ProtocolMatch()(buf)
	out += fmt.Sprintf(" match=%d", m)
	if bv := buffer.PoolContext(ctx); bv != nil {
		bv.Give()
	}
	return out
}

// ---------------------------------------------------------------- frame alphabets

type c08kv struct{ k, v string }

// bolt v1 / v2 frames from the layouts in bolt/protocol.go and boltv2/protocol.go
func c08Bolt(v2 bool, name string, typ byte, cmdcode uint16, id uint32, class string, kvs []c08kv, content string) c08.Frame {
	var hdr []byte
	var kvLens []int // offsets (in hdr) of the 4-byte string lengths
	for _, kv := range kvs {
		for _, s := range []string{kv.k, kv.v} {
			kvLens = append(kvLens, len(hdr))
			var l [4]byte
			binary.BigEndian.PutUint32(l[:], uint32(len(s)))
			hdr = append(hdr, l[:]...)
			hdr = append(hdr, s...)
		}
	}
	var b []byte
	if v2 {
		b = append(b, 2, 1, typ)
	} else {
		b = append(b, 1, typ)
	}
	b = append(b, byte(cmdcode>>8), byte(cmdcode), 1)
	b = append(b, byte(id>>24), byte(id>>16), byte(id>>8), byte(id), 1)
	if v2 {
		b = append(b, 0) // switch
	}
	if typ == 0 { // response: status
		b = append(b, 0, 0)
	} else { // timeout
		b = append(b, 0, 0, 0x0b, 0xb8)
	}
	lenOff := len(b)
	b = append(b, byte(len(class)>>8), byte(len(class)), byte(len(hdr)>>8), byte(len(hdr)))
	b = append(b, byte(len(content)>>24), byte(len(content)>>16), byte(len(content)>>8), byte(len(content)))
	fixed := len(b)
	b = append(b, class...)
	b = append(b, hdr...)
	b = append(b, content...)
	f := c08.Frame{Name: name, Bytes: b}
	f.Fields = []c08.Field{{Name: "classLen", Off: lenOff, Width: 2}, {Name: "headerLen", Off: lenOff + 2, Width: 2}, {Name: "contentLen", Off: lenOff + 4, Width: 4}}
	hstart := fixed + len(class)
	for i, o := range kvLens {
		nm := "keyLen"
		if i%2 == 1 {
			nm = "valueLen"
		}
		f.Fields = append(f.Fields, c08.Field{Name: fmt.Sprintf("%s[%d]", nm, i/2), Off: hstart + o, Width: 4})
	}
	f.Blocks = []c08.Block{
		{Name: "class", End: fixed + len(class), Lens: []int{0}},
		{Name: "header", End: hstart + len(hdr), Lens: []int{1}},
		{Name: "content", End: len(b), Lens: []int{2}},
	}
	if len(kvLens) > 0 {
		// the last value grows together with the header block
		f.Blocks = append(f.Blocks, c08.Block{Name: "last header value", End: hstart + len(hdr), Lens: []int{1, 3 + len(kvLens) - 1}})
	}
	return f
}

func c08BoltFrames(v2 bool) []c08.Frame {
	kv2 := []c08kv{{"service", "com.x.Svc:1.0"}, {"k", ""}}
	return []c08.Frame{
		c08Bolt(v2, "small request", 1, 1, 1, "c", nil, "x"),
		c08Bolt(v2, "request with headers+body", 1, 1, 0x01020304, "com.x.Req", kv2, "body-bytes"),
		c08Bolt(v2, "response", 0, 2, 0x01020304, "com.x.Resp", []c08kv{{"a", "b"}}, "resp"),
		c08Bolt(v2, "heartbeat", 1, 0, 7, "", nil, ""),
		c08Bolt(v2, "heartbeat ack", 0, 0, 7, "", nil, ""),
		c08Bolt(v2, "one-way", 2, 1, 9, "com.x.Req", []c08kv{{"k", "v"}}, "ow"),
	}
}

// hessian2 short strings (length 0..31: one length byte + bytes), maps 'H' … 'Z', null 'N'
type c08hb struct {
	b    []byte
	lens []int
}

func (h *c08hb) str(s string) *c08hb {
	h.lens = append(h.lens, len(h.b))
	h.b = append(h.b, byte(len(s)))
	h.b = append(h.b, s...)
	return h
}
func (h *c08hb) raw(b ...byte) *c08hb { h.b = append(h.b, b...); return h }

func c08Dubbo(name string, flag, status byte, id uint64, payload *c08hb) c08.Frame {
	b := []byte{0xda, 0xbb, flag, status}
	var t [8]byte
	binary.BigEndian.PutUint64(t[:], id)
	b = append(b, t[:]...)
	binary.BigEndian.PutUint32(t[:4], uint32(len(payload.b)))
	b = append(b, t[:4]...)
	b = append(b, payload.b...)
	f := c08.Frame{Name: name, Bytes: b, Fields: []c08.Field{{Name: "dataLen", Off: 12, Width: 4}}}
	for i, o := range payload.lens {
		f.Fields = append(f.Fields, c08.Field{Name: fmt.Sprintf("hessianStrLen[%d]", i), Off: 16 + o, Width: 1})
	}
	f.Blocks = []c08.Block{{Name: "payload", End: len(b), Lens: []int{0}}}
	return f
}

func c08DubboFrames() []c08.Frame {
	small := func() *c08hb { return (&c08hb{}).str("2.0.2").str("com.x.Svc").str("1.0").str("m").str("").raw('N') }
	full := (&c08hb{}).str("2.0.2").str("com.x.Svc").str("1.0").str("hello").str("Ljava/lang/String;I").str("arg").raw(0x91).
		raw('H').str("path").str("com.x.Svc").str("interface").str("com.x.Svc").str("group").str("g").raw('Z')
	resp := (&c08hb{}).raw(0x91).str("ok")
	return []c08.Frame{
		c08Dubbo("small request", 0xC2, 0, 1, small()),
		c08Dubbo("request with attachments", 0xC2, 0, 0x0102030405060708, full),
		c08Dubbo("response", 0x02, 20, 0x0102030405060708, resp),
		c08Dubbo("heartbeat", 0xE2, 0, 5, (&c08hb{}).raw('N')),
		c08Dubbo("one-way", 0x82, 0, 9, small()),
	}
}

// dubbo-thrift frames from the layout in dubbothrift/protocol.go
func c08Thrift(name string, service string, id uint64, mtype byte, method string, seq uint32, args []byte) c08.Frame {
	be32 := func(v uint32) []byte { var t [4]byte; binary.BigEndian.PutUint32(t[:], v); return t[:] }
	var b []byte
	b = append(b, 0, 0, 0, 0) // message length (fixed below)
	b = append(b, 0xda, 0xbc) // magic
	b = append(b, 0, 0, 0, 0) // message length again
	b = append(b, 0, 0)       // header length
	b = append(b, 1)          // version
	svcLenOff := len(b)
	b = append(b, be32(uint32(len(service)))...)
	b = append(b, service...)
	var t [8]byte
	binary.BigEndian.PutUint64(t[:], id)
	b = append(b, t[:]...)
	headerEnd := len(b)
	b = append(b, 0x80, 0x01, 0x00, mtype) // TBinaryProtocol strict message begin
	mLenOff := len(b)
	b = append(b, be32(uint32(len(method)))...)
	b = append(b, method...)
	b = append(b, be32(seq)...)
	b = append(b, args...)
	binary.BigEndian.PutUint32(b[0:], uint32(len(b)-4))
	binary.BigEndian.PutUint32(b[6:], uint32(len(b)-4))
	binary.BigEndian.PutUint16(b[10:], uint16(headerEnd-4))
	f := c08.Frame{Name: name, Bytes: b, Fields: []c08.Field{
		{Name: "messageLen(outer)", Off: 0, Width: 4}, {Name: "messageLen(inner)", Off: 6, Width: 4}, {Name: "headerLen", Off: 10, Width: 2},
		{Name: "serviceNameLen", Off: svcLenOff, Width: 4}, {Name: "methodNameLen", Off: mLenOff, Width: 4}}}
	f.Blocks = []c08.Block{
		{Name: "header", End: headerEnd, Lens: []int{0, 1, 2}},
		{Name: "body", End: len(b), Lens: []int{0, 1}},
		{Name: "body(outer length only)", End: len(b), Lens: []int{0}},
	}
	return f
}

func c08ThriftFrames() []c08.Frame {
	argStr := []byte{0x0b, 0x00, 0x01, 0x00, 0x00, 0x00, 0x02, 'h', 'i', 0x00} // field 1: string "hi"; stop
	return []c08.Frame{
		c08Thrift("small request", "s", 1, 1, "m", 1, []byte{0x00}),
		c08Thrift("request with args", "com.x.Svc", 0x0102030405060708, 1, "hello", 7, argStr),
		c08Thrift("response", "com.x.Svc", 0x0102030405060708, 2, "hello", 7, argStr),
		c08Thrift("one-way", "com.x.Svc", 9, 4, "fire", 8, []byte{0x00}),
	}
}

// tars frames come from TarsGo's own writer; the length fields are located by walking the TLV structure.

// c08TarsOne walks ONE field starting at off; end reports a STRUCT_END.
func c08TarsOne(b []byte, off int, f *c08.Frame, path string) (next int, end bool) {
	head := b[off]
	ty, tag := head&0x0f, int(head>>4)
	off++
	if tag == 15 {
		tag = int(b[off])
		off++
	}
	nm := fmt.Sprintf("%s.%d", path, tag)
	switch ty {
	case 0:
		off++
	case 1:
		off += 2
	case 2, 4:
		off += 4
	case 3, 5:
		off += 8
	case 6:
		n := int(b[off])
		f.Fields = append(f.Fields, c08.Field{Name: nm + ":string1Len", Off: off, Width: 1})
		off += 1 + n
		f.Blocks = append(f.Blocks, c08.Block{Name: nm + ":string1", End: off, Lens: []int{0, len(f.Fields) - 1}})
	case 7:
		n := int(binary.BigEndian.Uint32(b[off:]))
		f.Fields = append(f.Fields, c08.Field{Name: nm + ":string4Len", Off: off, Width: 4})
		off += 4 + n
		f.Blocks = append(f.Blocks, c08.Block{Name: nm + ":string4", End: off, Lens: []int{0, len(f.Fields) - 1}})
	case 8, 9: // map, list: size as an int field with tag 0, then 2*size / size elements
		n, o2, _ := c08TarsInt(b, off, f, nm+":size")
		off = o2
		if ty == 8 {
			n *= 2
		}
		for i := 0; i < n; i++ {
			off, _ = c08TarsOne(b, off, f, fmt.Sprintf("%s[%d]", nm, i))
		}
	case 10:
		off = c08TarsWalk(b, off, f, nm)
	case 11:
		return off, true
	case 12:
	case 13: // simple list: head byte (type byte), size int, bytes
		off++
		n, o2, li := c08TarsInt(b, off, f, nm+":bytesLen")
		off = o2 + n
		if li >= 0 {
			f.Blocks = append(f.Blocks, c08.Block{Name: nm + ":bytes", End: off, Lens: []int{0, li}})
		}
	default:
		panic("c08: unexpected tars type")
	}
	return off, false
}

// c08TarsWalk walks fields until the end of b or a STRUCT_END.
func c08TarsWalk(b []byte, off int, f *c08.Frame, path string) int {
	for off < len(b) {
		var end bool
		off, end = c08TarsOne(b, off, f, path)
		if end {
			break
		}
	}
	return off
}

// an integer TLV (tag 0) used as size: records the field when it has bytes (ZERO_TAG has none)
func c08TarsInt(b []byte, off int, f *c08.Frame, name string) (val int, next int, fieldIdx int) {
	ty := b[off] & 0x0f
	off++
	switch ty {
	case 12:
		return 0, off, -1
	case 0:
		f.Fields = append(f.Fields, c08.Field{Name: name, Off: off, Width: 1})
		return int(b[off]), off + 1, len(f.Fields) - 1
	case 1:
		f.Fields = append(f.Fields, c08.Field{Name: name, Off: off, Width: 2})
		return int(binary.BigEndian.Uint16(b[off:])), off + 2, len(f.Fields) - 1
	case 2:
		f.Fields = append(f.Fields, c08.Field{Name: name, Off: off, Width: 4})
		return int(binary.BigEndian.Uint32(b[off:])), off + 4, len(f.Fields) - 1
	}
	panic("c08: unexpected tars size type")
}

func c08TarsFrame(name string, w interface{ WriteTo(*codec.Buffer) error }) c08.Frame {
	wb := codec.NewBuffer()
	if err := w.WriteTo(wb); err != nil {
		panic(err)
	}
	body := wb.ToBytes()
	b := make([]byte, 4, 4+len(body))
	binary.BigEndian.PutUint32(b, uint32(4+len(body)))
	b = append(b, body...)
	f := c08.Frame{Name: name, Bytes: b, Fields: []c08.Field{{Name: "packetLen", Off: 0, Width: 4}}}
	end := c08TarsWalk(b, 4, &f, "pkt")
	if end != len(b) {
		panic(fmt.Sprintf("c08: tars walker stopped at %d of %d", end, len(b)))
	}
	f.Blocks = append(f.Blocks, c08.Block{Name: "packet", End: len(b), Lens: []int{0}})
	return f
}

func c08TarsFrames() []c08.Frame {
	long := strings.Repeat("v", 260) // forces a STRING4
	return []c08.Frame{
		c08TarsFrame("small request", &requestf.RequestPacket{IVersion: 1, IRequestId: 1, SServantName: "s", SFuncName: "f"}),
		c08TarsFrame("request with context+body", &requestf.RequestPacket{IVersion: 1, CPacketType: 0, IMessageType: 0, IRequestId: 0x01020304,
			SServantName: "App.Svc.Obj", SFuncName: "hello", SBuffer: []int8{1, 2, 3, 4, 5}, ITimeout: 3000,
			Context: map[string]string{"k": "v"}, Status: map[string]string{"s": "t"}}),
		c08TarsFrame("request with string4", &requestf.RequestPacket{IVersion: 1, IRequestId: 3, SServantName: "s", SFuncName: "f", Context: map[string]string{"k": long}}),
		c08TarsFrame("response", &requestf.ResponsePacket{IVersion: 1, IRequestId: 0x01020304, IRet: 0, SBuffer: []int8{9, 8, 7}, SResultDesc: "ok",
			Status: map[string]string{"s": "t"}, Context: map[string]string{"k": "v"}}),
		c08TarsFrame("one-way", &requestf.RequestPacket{IVersion: 1, CPacketType: 1, IRequestId: 0, SServantName: "s", SFuncName: "f"}),
	}
}

// ---------------------------------------------------------------- parts

type c08Target struct {
	name   string
	frames []c08.Frame
	magics [][]byte
}

func c08Gen(ts []c08Target) func(yield func(c08.Case) bool) {
	return func(yield func(c08.Case) bool) {
		for _, tg := range ts {
			for _, f := range tg.frames {
				if !c08.Mutations(tg.name, f, yield) {
					return
				}
			}
			if tg.magics != nil {
				if !c08.ShortStrings(tg.name, tg.magics, yield) {
					return
				}
			}
		}
	}
}

const c08Bound = "per codec: every frame of the alphabet x {every truncation; every length field x {0,1,2,3,true-1,true+1,2^16-1,2^31-1,2^31,2^32-1} (clamped to the field width); every byte x {0x00,0xFF,^b}; every block +1..3 bytes of {00,01,FF} and -1..3 bytes with lengths adjusted; 1..3 trailing bytes}; all byte strings of length <=2; all 3-byte strings starting with the protocol magic"
const c08Rule = "each input is decoded three times through XProtocol.Decode + ProtocolMatch (exact-capacity buffer, 4096 spare bytes of 0xA5, of 0x3C); distinct = distinct input bytes per target; outcome = (target, class, frame|more|error|panic). Oracle: no panic escapes (a panic the codec recovers and returns as an error is allowed); outcomes with different poison identical; TotalAlloc delta of a call <= 64KiB+32*len(input) (confirmed by the minimum of 3 re-measurements); the call returns (60s; or 300ms with >1GiB heap). What a decoder returns for a corrupted frame (frame vs error vs more) is NOT compared."

func c08Run(t *testing.T, part string, ts []c08Target) {
	c08.Main(t, c08.Spec{Prop: "C08", Part: part, Budget: time.Duration(vreport.Pick(4, 20)) * time.Minute,
		Gen: c08Gen(ts), Exec: c08ExecCodec,
		NoAlloc: func(c c08.Case) bool { return c.Class == "short" && !vreport.Thorough() },
		Bound:   c08Bound, Rule: c08Rule})
}

func TestVerifC08Bolt(t *testing.T) {
	t.Parallel()
	c08Run(t, "bolt", []c08Target{{"bolt", c08BoltFrames(false), [][]byte{{0x01}}}})
}

func TestVerifC08BoltV2(t *testing.T) {
	t.Parallel()
	c08Run(t, "boltv2", []c08Target{{"boltv2", c08BoltFrames(true), [][]byte{{0x02}}}})
}

func TestVerifC08Dubbo(t *testing.T) {
	t.Parallel()
	// the decoder's behaviour depends on the listener name variable (attachment parsing)
	c08Run(t, "dubbo", []c08Target{
		{"dubbo", c08DubboFrames(), [][]byte{{0xda, 0xbb}}},
		{"dubbo/" + dubbo.IngressDubbo, c08DubboFrames(), nil},
		{"dubbo/" + dubbo.EgressDubbo, c08DubboFrames(), nil},
	})
}

func TestVerifC08DubboThrift(t *testing.T) {
	t.Parallel()
	c08Run(t, "dubbothrift", []c08Target{{"dubbo-thrift", c08ThriftFrames(), [][]byte{{0xda, 0xbc}}}})
}

func TestVerifC08Tars(t *testing.T) {
	t.Parallel()
	// tars has no magic; the matcher keys on byte 4 == 0x10 (iVersion head); 0x00 0x00 is the top of every sane length prefix
	c08Run(t, "tars", []c08Target{{"tars", c08TarsFrames(), [][]byte{{0x00, 0x00}, {0x10}}}})
}

// Vacuity guard: every frame of the alphabets decodes to a frame consuming exactly its bytes.
func TestVerifC08Alphabet(t *testing.T) {
	if vreport.Replaying() || os.Getenv("C08_CHILD") != "" {
		return
	}
	p := vreport.Begin("C08", "codec-alphabet-valid", time.Minute)
	all := []c08Target{{"bolt", c08BoltFrames(false), nil}, {"boltv2", c08BoltFrames(true), nil}, {"dubbo", c08DubboFrames(), nil},
		{"dubbo/" + dubbo.IngressDubbo, c08DubboFrames(), nil}, {"dubbo-thrift", c08ThriftFrames(), nil}, {"tars", c08TarsFrames(), nil}}
	for _, tg := range all {
		for _, f := range tg.frames {
			p.Eval()
			out := c08ExecCodec(c08.Case{Target: tg.name}, append([]byte(nil), f.Bytes...))
			p.Distinct(tg.name + f.Name)
			p.Outcome(strings.SplitN(out, " ", 2)[0])
			if tg.name == "tars" && len(f.Bytes) >= 256 {
				// tars/decoder.go hands the 4-byte length prefix to the TLV reader, so frames of 256 bytes and
				// more (any frame with a STRING4) are rejected by the real decoder: a C01/C07 matter, not C08.
				// The frame stays in the alphabet (its corruptions are inputs like any other).
				p.Count("tars frames >=256 bytes rejected by the decoder (known C01/C07 defect)", 1)
				continue
			}
			if !strings.HasPrefix(out, "frame rest=0 ") {
				vreport.HarnessError("C08", "codec-alphabet-valid", fmt.Sprintf("alphabet frame %s/%q does not decode to a frame: %s", tg.name, f.Name, out))
			}
			if p.WantSample() {
				p.Sample(map[string]string{"target": tg.name, "frame": f.Name, "hex": fmt.Sprintf("%x", f.Bytes), "decoded": out})
			}
		}
	}
	p.End(true, "every frame of every codec alphabet", "sanity: the unmutated frames are valid for the real decoders")
}
