//go:build verif

package boltv2

import (
	"context"
	"testing"
	"time"

	"mosn.io/api"
	"mosn.io/mosn/pkg/protocol/xprotocol/bolt"
	"mosn.io/mosn/pkg/protocol/xprotocol/internal/registry"
	"mosn.io/mosn/pkg/verifrt/vc01"
	"mosn.io/mosn/pkg/verifrt/vreport"
)

// C01 forwarding fidelity, seam (a), boltv2 — plus the bolt<->boltv2 pairing on
// one connection: the two codecs delegate to each other through the internal
// registry (bolt frames arriving at the boltv2 codec, boltv2 frames arriving at
// the bolt codec).

func init() {
	// what xprotocol.RegisterXProtocolCodec does for the delegation
	registry.RegisterXProtocolCodec(bolt.ProtocolName, &bolt.XCodec{})
	registry.RegisterXProtocolCodec(ProtocolName, &XCodec{})
}

func c01Class(f api.XFrame) string {
	switch r := f.(type) {
	case *Request:
		return r.Class
	case *Response:
		return r.Class
	case *bolt.Request:
		return r.Class
	case *bolt.Response:
		return r.Class
	}
	return ""
}

func c01SetClass(f api.XFrame, s string) {
	switch r := f.(type) {
	case *Request:
		r.Class = s
	case *Response:
		r.Class = s
	case *bolt.Request:
		r.Class = s
	case *bolt.Response:
		r.Class = s
	}
}

func c01Adapter(viaBolt bool) *vc01.Adapter {
	a := &vc01.Adapter{
		Codec:         "boltv2",
		Proto:         func(ctx context.Context) api.XProtocol { return boltv2Protocol{} },
		Build:         vc01.BoltBuild(true),
		Trailer:       vc01.BoltTrailer(true),
		RefView:       vc01.BoltRefView,
		Class:         c01Class,
		SetClass:      c01SetClass,
		MustAccept:    func(c vc01.Case, v vc01.View) bool { return true },
		Representable: vc01.BoltRepresentable,
	}
	if viaBolt {
		a.Codec = "boltv2-frames-at-bolt-codec"
		a.Proto = func(ctx context.Context) api.XProtocol {
			return registry.GetXProtocolCodec(bolt.ProtocolName).NewXProtocol(ctx)
		}
	}
	return a
}

const c01Rule = "every case = one reference frame (vref.BoltFrame.Encode) followed by a second small frame in one read buffer: Decode, consumption == frame length, GetHeader/GetData/SetData(same)/SetRequestId(new)/Encode as xStream.endStream does — three times on the same frame object with the same data buffer object (first try + two retries; ids new, old, new), after which the data buffer must still read the same; bytes must equal the reference encoding with only the id replaced; scribble=true additionally overwrites the whole read buffer after Decode. mode v1 = bolt v1 frames handed to the boltv2 codec (delegation). distinct = distinct (mode,dir,kind,lengths,shape,ids,field,value)"

func TestVerifC01Boltv2Fidelity(t *testing.T) {
	p := vreport.Begin("C01", "boltv2-fidelity", time.Duration(vreport.Pick(60, 900))*time.Second)
	a := c01Adapter(false)
	modes := []string{"", "v1"}
	complete := vreport.Run(p,
		func(yield func(vc01.Case) bool) { vc01.BoltFidelityCases("boltv2", true, modes, false, yield) },
		func(p *vreport.Part, c vc01.Case) { vc01.CheckFidelity(p, a, c) })
	p.End(complete, vc01.BoltBound(modes), c01Rule)
}

func TestVerifC01Boltv2ViaBoltFidelity(t *testing.T) {
	p := vreport.Begin("C01", "boltv2-at-bolt-codec-fidelity", time.Duration(vreport.Pick(60, 900))*time.Second)
	a := c01Adapter(true)
	modes := []string{""}
	complete := vreport.Run(p,
		func(yield func(vc01.Case) bool) {
			vc01.BoltFidelityCases("boltv2-frames-at-bolt-codec", true, modes, true, yield)
		},
		func(p *vreport.Part, c vc01.Case) { vc01.CheckFidelity(p, a, c) })
	p.End(complete, vc01.BoltBound(modes)+" (quick: five header shapes)", "boltv2 frames handed to the bolt codec object (delegation through the registry); otherwise as boltv2-fidelity")
}

func TestVerifC01Boltv2Modify(t *testing.T) {
	p := vreport.Begin("C01", "boltv2-modify", time.Duration(vreport.Pick(60, 900))*time.Second)
	a := c01Adapter(false)
	modes := []string{"", "v1"}
	complete := vreport.Run(p,
		func(yield func(vc01.Case) bool) { vc01.BoltModCases("boltv2", true, modes, yield) },
		func(p *vreport.Part, c vc01.Case) { vc01.CheckMod(p, a, c) })
	p.End(complete, "modes {boltv2 frames, bolt v1 frames at the boltv2 codec} x dirs x class {0,1,256 | thorough: all} x header shapes with distinct keys x content {0,1,256,65536 | thorough: all} x 13 modifications"+vc01.ModTwinsBound,
		"modification applied through HeaderMap.Set/Del, SetData, (Class field + a header write); then three upstream attempts (SetData(same buffer object), SetRequestId, Encode): the first Encode must return an error or, like each later one, bytes that the reference parser AND a fresh Decode read back as exactly the modified class/headers/body, unmodified fixed fields, consistent lengths; an error is accepted only for content that does not fit the 16-bit class/header-block fields"+vc01.ModTwinsRule)
}

// Non-canonical header blocks (null strings as sofa-bolt java writes them, empty
// and duplicate keys, ... every block of a few strings): accepted? forwarded
// unmodified byte-identically? re-encoded with consistent lengths after a
// modification? See vc01/noncanon.go.
func TestVerifC01Boltv2HeaderForms(t *testing.T) {
	p := vreport.Begin("C01", "boltv2-header-forms", time.Duration(vreport.Pick(60, 900))*time.Second)
	a := c01Adapter(false)
	modes := []string{"", "v1"}
	complete := vreport.Run(p,
		func(yield func(vc01.Case) bool) { vc01.BoltFormCases("boltv2", modes, yield) },
		func(p *vreport.Part, c vc01.Case) { vc01.CheckForm(p, a, c) })
	p.End(complete, vc01.BoltFormBound(modes), vc01.BoltFormRule+"; mode v1 = bolt v1 frames handed to the boltv2 codec (delegation)")
}

func TestVerifC01Boltv2ViaBoltHeaderForms(t *testing.T) {
	p := vreport.Begin("C01", "boltv2-at-bolt-codec-header-forms", time.Duration(vreport.Pick(60, 900))*time.Second)
	a := c01Adapter(true)
	modes := []string{""}
	complete := vreport.Run(p,
		func(yield func(vc01.Case) bool) { vc01.BoltFormCases("boltv2-frames-at-bolt-codec", modes, yield) },
		func(p *vreport.Part, c vc01.Case) { vc01.CheckForm(p, a, c) })
	p.End(complete, vc01.BoltFormBound(modes), vc01.BoltFormRule+"; boltv2 frames handed to the bolt codec object (delegation through the registry)")
}
