//go:build verif

package tars

import (
	"bytes"
	"context"
	"fmt"
	"math"
	"reflect"
	"testing"
	"time"

	"mosn.io/api"
	"mosn.io/mosn/pkg/verifrt/vc01"
	"mosn.io/mosn/pkg/verifrt/vref"
	"mosn.io/mosn/pkg/verifrt/vreport"
)

// C01 forwarding fidelity, seam (a): the real tars api.XProtocol against
// vref.TarsRequest / vref.TarsResponse (hand-written canonical writer, checked
// against TarsGo's generated writer for every frame whose maps have <= 1 entry,
// where TarsGo is deterministic).
//
// Case mapping — request: Class = servant name length, Hdr = context map shape,
// Body = sBuffer length; response: Class = sResultDesc length, Hdr = status map
// shape, Body = sBuffer length. Ids are int32 on the wire (minimal width).

var c01Dirs = []string{"request", "response"}

// every integer width class of the tars minimal-width encoding, both signs
var c01Ints = []int64{0, 1, -1, 127, 128, -128, -129, 32767, 32768, -32768, -32769, math.MaxInt32, math.MinInt32}

type c01Field struct {
	name     string
	min, max int64
	req, rsp bool
}

var c01Fields = []c01Field{
	{"version", math.MinInt16, math.MaxInt16, true, true},
	{"packettype", math.MinInt8, math.MaxInt8, true, true},
	{"messagetype", math.MinInt32, math.MaxInt32, true, true},
	{"timeout", math.MinInt32, math.MaxInt32, true, false},
	{"ret", math.MinInt32, math.MaxInt32, false, true},
	{"funclen", 0, 65535, true, false},
	{"statuspairs", 0, 2, true, false},
	{"contextpairs", 0, 2, false, true},
}

func c01Request(c vc01.Case) vref.TarsRequest {
	r := vref.TarsRequest{Version: 1, ID: int32(uint32(c.ID)), Servant: vref.Bytes(c.Class, c.Seed+1), Func: []byte("echo"),
		Buffer: vref.Bytes(c.Body, c.Seed), Timeout: 3000, Context: c.Hdr.KVs(false), Status: []vref.KV{}}
	v := int64(c.Val)
	switch c.Kind {
	case "sweep":
		switch c.Field {
		case "version":
			r.Version = int16(v)
		case "packettype":
			r.PacketType = int8(v)
		case "messagetype":
			r.MessageType = int32(v)
		case "timeout":
			r.Timeout = int32(v)
		case "funclen":
			r.Func = vref.Bytes(int(v), 5)
		case "statuspairs":
			r.Status = vref.HeaderShape{Pairs: int(v), KLen: 2, VLen: 3}.KVs(false)
		default:
			panic("field " + c.Field)
		}
	case "zero":
		r.Version, r.Timeout, r.Func = 0, 0, nil
	case "max":
		r.Version, r.PacketType, r.MessageType, r.Timeout = math.MaxInt16, math.MaxInt8, math.MaxInt32, math.MaxInt32
		r.Func = vref.Bytes(65535, 5)
	case "min":
		r.Version, r.PacketType, r.MessageType, r.Timeout = math.MinInt16, math.MinInt8, math.MinInt32, math.MinInt32
	case "byte":
		r.Buffer = []byte{byte(c.Val)}
	}
	return r
}

func c01Response(c vc01.Case) vref.TarsResponse {
	r := vref.TarsResponse{Version: 1, ID: int32(uint32(c.ID)), ResultDesc: vref.Bytes(c.Class, c.Seed+1),
		Buffer: vref.Bytes(c.Body, c.Seed), Status: c.Hdr.KVs(false), Context: []vref.KV{}}
	v := int64(c.Val)
	switch c.Kind {
	case "sweep":
		switch c.Field {
		case "version":
			r.Version = int16(v)
		case "packettype":
			r.PacketType = int8(v)
		case "messagetype":
			r.MessageType = int32(v)
		case "ret":
			r.Ret = int32(v)
		case "contextpairs":
			r.Context = vref.HeaderShape{Pairs: int(v), KLen: 2, VLen: 3}.KVs(false)
		default:
			panic("field " + c.Field)
		}
	case "zero":
		r.Version = 0
	case "max":
		r.Version, r.PacketType, r.MessageType, r.Ret = math.MaxInt16, math.MaxInt8, math.MaxInt32, math.MaxInt32
	case "min":
		r.Version, r.PacketType, r.MessageType, r.Ret = math.MinInt16, math.MinInt8, math.MinInt32, math.MinInt32
	case "byte":
		r.Buffer = []byte{byte(c.Val)}
	}
	return r
}

func c01Build(c vc01.Case) (in, want []byte) {
	if c.Dir == "request" {
		r := c01Request(c)
		in = r.Encode()
		r.ID = int32(uint32(c.NewID))
		return in, r.Encode()
	}
	r := c01Response(c)
	in = r.Encode()
	r.ID = int32(uint32(c.NewID))
	return in, r.Encode()
}

func c01MaxPairs(c vc01.Case) int {
	n := c.Hdr.Pairs
	if c.Kind == "sweep" && (c.Field == "statuspairs" || c.Field == "contextpairs") && int(c.Val) > n {
		n = int(c.Val)
	}
	return n
}

func c01IntWidth(v int32) string {
	switch {
	case v == 0:
		return "zero"
	case v >= math.MinInt8 && v <= math.MaxInt8:
		return "byte"
	case v >= math.MinInt16 && v <= math.MaxInt16:
		return "short"
	}
	return "int"
}

func c01Adapter() *vc01.Adapter {
	trailer := vref.TarsResponse{Version: 1, ID: 0x01020304, Buffer: []byte("x"), Status: []vref.KV{}, Context: []vref.KV{}}.Encode()
	return &vc01.Adapter{
		Codec:   "tars",
		Proto:   func(ctx context.Context) api.XProtocol { return tarsProtocol{} },
		Build:   vc01.CacheBuild(c01Build),
		Trailer: trailer,
		DecodeFailClass: func(c vc01.Case, in []byte) string {
			if c.Dir == "response" {
				if w := c01IntWidth(c01Response(c).Ret); w == "byte" || w == "short" {
					return "iRet-encoded-as-" + w
				}
			}
			if len(in) >= 256 {
				return "frameLen>=256"
			}
			return "frameLen<256"
		},
		DiffClass: func(c vc01.Case, want, got []byte) string {
			// same packet, map entries written in another order?
			if c.Dir == "request" {
				a, n1, e1 := vref.ParseTarsRequest(want)
				b, n2, e2 := vref.ParseTarsRequest(got)
				if e1 == nil && e2 == nil && n1 == len(want) && n2 == len(got) {
					a.Context, a.Status, b.Context, b.Status = vref.SortedKVs(a.Context), vref.SortedKVs(a.Status), vref.SortedKVs(b.Context), vref.SortedKVs(b.Status)
					if reflect.DeepEqual(a, b) {
						return "map-entries-reordered"
					}
				}
			} else {
				a, n1, e1 := vref.ParseTarsResponse(want)
				b, n2, e2 := vref.ParseTarsResponse(got)
				if e1 == nil && e2 == nil && n1 == len(want) && n2 == len(got) {
					a.Context, a.Status, b.Context, b.Status = vref.SortedKVs(a.Context), vref.SortedKVs(a.Status), vref.SortedKVs(b.Context), vref.SortedKVs(b.Status)
					if reflect.DeepEqual(a, b) {
						return "map-entries-reordered"
					}
				}
			}
			return ""
		},
		UnstableDiff:  "map-entries-reordered",
		DataCarriesID: true,
		EncodeTries: func(c vc01.Case) int {
			// TarsGo writes maps by ranging over a Go map: with two entries the order
			// is swapped in roughly one encode out of eight; 256 tries make a miss
			// (7/8)^256 ~ 1e-15
			// (small frames; large ones, enumerated after the small ones, repeat 4 times)
			if c01MaxPairs(c) >= 2 {
				if c.Class+c.Body+c.Hdr.Pairs*(c.Hdr.KLen+c.Hdr.VLen) <= 4096 {
					return 256
				}
				return 4
			}
			return 1
		},
		RefView: func(c vc01.Case, b []byte) (vc01.View, int, error) {
			if c.Dir == "request" {
				r, n, err := vref.ParseTarsRequest(b)
				if err != nil {
					return vc01.View{}, n, err
				}
				h := vref.SortedKVs([]vref.KV{{K: []byte(ServiceNameHeader), V: r.Servant}, {K: []byte(MethodNameHeader), V: r.Func}})
				return vc01.View{Headers: h, Body: append([]byte{}, b[:n]...), Fixed: map[string]uint64{"version": uint64(uint16(r.Version)), "packettype": uint64(uint8(r.PacketType)),
					"messagetype": uint64(uint32(r.MessageType)), "timeout": uint64(uint32(r.Timeout))}}, n, nil
			}
			r, n, err := vref.ParseTarsResponse(b)
			if err != nil {
				return vc01.View{}, n, err
			}
			return vc01.View{Body: append([]byte{}, b[:n]...), Fixed: map[string]uint64{"version": uint64(uint16(r.Version)), "packettype": uint64(uint8(r.PacketType)),
				"messagetype": uint64(uint32(r.MessageType)), "ret": uint64(uint32(r.Ret))}}, n, nil
		},
		ModBody: func(c vc01.Case, n int) []byte {
			// the tars codec exposes the WHOLE frame as data: the replacement is a
			// well-formed frame of the same packet whose sBuffer has n bytes
			// (it carries the id the stream layer is about to set, so that an Encode
			// honouring SetData and the id rewrite produces exactly these bytes)
			if c.Dir == "request" {
				r := c01Request(c)
				r.Buffer, r.ID = vref.Bytes(n, 9), int32(uint32(c.NewID))
				return r.Encode()
			}
			r := c01Response(c)
			r.Buffer, r.ID = vref.Bytes(n, 9), int32(uint32(c.NewID))
			return r.Encode()
		},
	}
}

// c01CrossCheck compares the hand-written canonical writer with TarsGo's
// generated writer wherever the latter is deterministic. A mismatch is a
// harness error (the reference is wrong), never a violation.
func c01CrossCheck(p *vreport.Part, c vc01.Case) {
	if c.Scribble || c01MaxPairs(c) > 1 {
		return
	}
	var mine, theirs []byte
	if c.Dir == "request" {
		r := c01Request(c)
		mine, theirs = r.Encode(), r.EncodeTarsGo()
	} else {
		r := c01Response(c)
		mine, theirs = r.Encode(), r.EncodeTarsGo()
	}
	p.Count("reference_frames_equal_to_TarsGo_writer", 1)
	if !bytes.Equal(mine, theirs) {
		vreport.HarnessError(p.Prop, p.Name, fmt.Sprintf("vref tars writer differs from TarsGo's for %+v: %s", c, vref.FirstDiff(theirs, mine)))
	}
}

func c01FidelityCases(yield func(vc01.Case) bool) {
	wide := vreport.Thorough()
	emit := func(c vc01.Case) bool {
		c.Codec = "tars"
		for _, s := range []bool{false, true} {
			c.Scribble = s
			if !yield(c) {
				return false
			}
		}
		return true
	}
	for _, dir := range c01Dirs {
		for _, cl := range vref.Lens16 {
			for _, hs := range vref.HeaderShapes(0, wide) {
				if !hs.DistinctKeys(false) {
					// a map on the wire has pairwise distinct keys
					continue
				}
				for _, bl := range vref.ContentLens {
					for _, id := range vref.IDs32 {
						for _, nid := range vc01.NewIDs(id, vref.IDs32, 1<<32-1) {
							if !emit(vc01.Case{Dir: dir, Kind: "product", Class: cl, Hdr: hs, Body: bl, Seed: cl + bl, ID: id, NewID: nid}) {
								return
							}
						}
					}
				}
			}
		}
		// ids across every integer width of the minimal-width encoding (old and new)
		for _, id := range c01Ints {
			for _, nid := range c01Ints {
				if !emit(vc01.Case{Dir: dir, Kind: "idwidth", Class: 3, Body: 2, Seed: 1, ID: uint64(uint32(int32(id))), NewID: uint64(uint32(int32(nid)))}) {
					return
				}
			}
		}
		for _, fd := range c01Fields {
			if dir == "request" && !fd.req || dir == "response" && !fd.rsp {
				continue
			}
			vals := c01Ints
			switch fd.name {
			case "funclen":
				vals = []int64{0, 1, 255, 256, 65535}
			case "statuspairs", "contextpairs":
				vals = []int64{0, 1, 2}
			}
			for _, v := range vals {
				if v < fd.min || v > fd.max {
					continue
				}
				if !emit(vc01.Case{Dir: dir, Kind: "sweep", Field: fd.name, Val: uint64(v), Class: 7, Hdr: vref.HeaderShape{Pairs: 1, KLen: 1, VLen: 1}, Body: 9, Seed: 3, ID: 0x11223344, NewID: 0x55667788}) {
					return
				}
			}
		}
		for _, k := range []string{"zero", "min"} {
			if !emit(vc01.Case{Dir: dir, Kind: k}) {
				return
			}
		}
		if !emit(vc01.Case{Dir: dir, Kind: "max", Class: 65535, Hdr: vref.HeaderShape{Pairs: 1, KLen: 1, VLen: 65536}, Body: 65536, Seed: 5, ID: 1<<31 - 1, NewID: 1 << 31}) {
			return
		}
		for b := 0; b < 256; b++ {
			if !emit(vc01.Case{Dir: dir, Kind: "byte", Val: uint64(b), Class: 1, Body: 1, ID: uint64(b), NewID: uint64(255 - b)}) {
				return
			}
		}
	}
}

func c01ModCases(yield func(vc01.Case) bool) {
	classes, bodies := []int{1, 100}, []int{0, 1, 100}
	shapes := []vref.HeaderShape{{}, {Pairs: 1, KLen: 1, VLen: 1}}
	if vreport.Thorough() {
		// frames of 256 bytes and more are (mostly) not decodable on the unchanged
		// tree: counted as base_frame_undecodable, reported by the fidelity part
		classes, bodies = vref.Lens16, vref.ContentLens
		shapes = vc01.ModShapes(false, true, 0)
	}
	for _, dir := range c01Dirs {
		for _, cl := range classes {
			for _, hs := range shapes {
				for _, bl := range bodies {
					for _, mod := range vc01.ModsNoClass {
						if !vc01.ModTwins(vc01.Case{Codec: "tars", Dir: dir, Kind: "mod", Mod: mod, Class: cl, Hdr: hs, Body: bl, Seed: cl + bl + 1, ID: 0x0a0b0c0d, NewID: 0x71f2f3f4}, yield) {
							return
						}
					}
				}
			}
		}
	}
}

func TestVerifC01TarsFidelity(t *testing.T) {
	p := vreport.Begin("C01", "tars-fidelity", time.Duration(vreport.Pick(60, 900))*time.Second)
	a := c01Adapter()
	complete := vreport.Run(p, c01FidelityCases, func(p *vreport.Part, c vc01.Case) {
		c01CrossCheck(p, c)
		vc01.CheckFidelity(p, a, c)
	})
	p.End(complete,
		fmt.Sprintf("dirs %v x servant-name|result-desc length %v x context|status map shapes (none,1,2,300 pairs x key/value %v with pairwise distinct keys, +one 65536-byte value) x sBuffer length %v x id %v x newid(quick: complement; thorough: all) x {buffer left alone, overwritten}; + old id x new id over %v; + one-at-a-time sweep of iVersion,cPacketType,iMessageType,iTimeout|iRet over the same integers (in range), function-name length {0,1,255,256,65535}, the other map with {0,1,2} pairs; + zero/min/max frames; + 256 one-byte bodies",
			c01Dirs, vref.Lens16, vref.PairLens, vref.ContentLens, vref.IDs32, c01Ints),
		"every case = one canonical tars frame (vref writer == TarsGo writer, checked) followed by a second small frame in one read buffer: Decode, consumption == frame length, GetHeader/GetData/SetData(same)/SetRequestId(new)/Encode as xStream.endStream does — three times on the same frame object with the same data buffer object (first try + two retries; ids new, old, new), after which the data buffer must still read the same; bytes must equal the canonical encoding of the same packet with only iRequestId replaced; Encode is repeated 256 times (4 times for frames above 4 KiB) when a map has >= 2 entries (the codec re-encodes through Go maps); scribble=true overwrites the whole read buffer after Decode. Non-canonical (wider than necessary) encodings are not enumerated")
}

func TestVerifC01TarsModify(t *testing.T) {
	p := vreport.Begin("C01", "tars-modify", time.Duration(vreport.Pick(60, 900))*time.Second)
	a := c01Adapter()
	complete := vreport.Run(p, c01ModCases, func(p *vreport.Part, c vc01.Case) { vc01.CheckMod(p, a, c) })
	p.End(complete, "dirs x servant|desc {1,100 | thorough: all} x map shapes {none, 1 pair | thorough: all with distinct keys} x sBuffer {0,1,100 | thorough: all} x 10 modifications (quick keeps base frames below 256 bytes, the only ones the unchanged tree decodes)"+vc01.ModTwinsBound,
		"modification applied through HeaderMap.Set/Del and SetData; then three upstream attempts (SetData(same buffer object), SetRequestId, Encode): the first Encode must return an error or, like each later one, bytes that the reference parser AND a fresh Decode read back as exactly the modified headers/body with consistent lengths. Header view of a request = service, method; of a response = none; the tars codec exposes the whole frame as data, a replacement body is a well-formed frame of the same packet with another sBuffer"+vc01.ModTwinsRule)
}
