//go:build verif

package dubbo

import (
	"context"
	"fmt"
	"testing"
	"time"

	"mosn.io/api"
	"mosn.io/mosn/pkg/types"
	"mosn.io/mosn/pkg/verifrt/vc01"
	"mosn.io/mosn/pkg/verifrt/vref"
	"mosn.io/mosn/pkg/verifrt/vreport"
	"mosn.io/pkg/variable"
)

// C01 forwarding fidelity, seam (a): the real dubbo api.XProtocol against the
// reference frame encoder (vref.DubboFrame) and hessian2 invocation bodies
// written with dubbo-go-hessian2.
//
// Directions: request (two-way), request-oneway, response, event-request,
// event-response. For (non-event) requests the case's "class" length is the
// service path length, the header shape is the attachment map and the body
// length is the length of one binary argument; for responses and events the
// payload is c.Body arbitrary bytes.
// Modes (listener configuration): "" = any listener (cheap decoder, four
// leading strings only), "ingress_dubbo" = listener named ingress_dubbo (full
// decoder: arguments skipped, attachments become headers).

var c01Dirs = []string{"request", "request-oneway", "response", "event-request", "event-response"}

func c01Flag(dir string) byte {
	switch dir {
	case "request":
		return vref.DubboFlagRequest | vref.DubboFlagTwoWay | vref.DubboHessian2
	case "request-oneway":
		return vref.DubboFlagRequest | vref.DubboHessian2
	case "response":
		return vref.DubboHessian2
	case "event-request":
		return vref.DubboFlagRequest | vref.DubboFlagTwoWay | vref.DubboFlagEvent | vref.DubboHessian2
	case "event-response":
		return vref.DubboFlagEvent | vref.DubboHessian2
	}
	panic("dir " + dir)
}

var (
	c01PayloadKey string
	c01Payload    []byte
)

func c01IsInvocation(dir string) bool { return dir == "request" || dir == "request-oneway" }

func c01Invocation(c vc01.Case, argLen int) vref.DubboInvocation {
	return vref.DubboInvocation{
		DubboVersion: "2.0.2",
		Path:         string(vref.ASCII(c.Class, c.Seed+1)),
		Version:      "1.0.0",
		Method:       "sayHello",
		Args:         [][]byte{vref.Bytes(argLen, c.Seed)},
		Attachments:  c.Hdr.KVs(true),
	}
}

func c01Ref(c vc01.Case) vref.DubboFrame {
	f := vref.DubboFrame{Magic: vref.DubboMagic, Flag: c01Flag(c.Dir), ID: c.ID}
	if !c01IsInvocation(c.Dir) && c.Dir != "event-request" {
		f.Status = 20
	}
	switch c.Kind {
	case "sweep":
		switch c.Field {
		case "status":
			f.Status = byte(c.Val)
		case "serialization":
			f.Flag = f.Flag&^0x1f | byte(c.Val)&0x1f
		default:
			panic("field " + c.Field)
		}
	case "zero":
		f.Status = 0
		if !c01IsInvocation(c.Dir) {
			f.Flag &^= 0x1f
		}
	case "max":
		f.Status = 255
		if !c01IsInvocation(c.Dir) {
			f.Flag |= 0x1f
		}
	}
	switch {
	case c01IsInvocation(c.Dir):
		// consecutive cases (ids, scribble, direction flags) share the payload
		key := fmt.Sprintf("%d|%s|%d|%d|%s|%d", c.Class, c.Hdr, c.Body, c.Seed, c.Kind, c.Val)
		if key != c01PayloadKey {
			inv := c01Invocation(c, c.Body)
			if c.Kind == "byte" {
				inv.Args = [][]byte{{byte(c.Val)}}
			}
			c01PayloadKey, c01Payload = key, inv.Encode()
		}
		f.Payload = c01Payload
	case c.Kind == "byte":
		f.Payload = []byte{byte(c.Val)}
	default:
		f.Payload = vref.Bytes(c.Body, c.Seed)
	}
	return f
}

func c01Headers(c vc01.Case, f vref.DubboFrame) ([]vref.KV, error) {
	if !c01IsInvocation(c.Dir) || f.Flag&vref.DubboFlagEvent != 0 {
		return nil, nil
	}
	inv, err := vref.ParseDubboInvocation(f.Payload)
	if err != nil {
		return nil, err
	}
	m := map[string]string{FrameworkVersionNameHeader: inv.DubboVersion, ServiceNameHeader: inv.Path, VersionNameHeader: inv.Version, MethodNameHeader: inv.Method}
	if c.Mode == IngressDubbo {
		for _, kv := range inv.Attachments {
			m[string(kv.K)] = string(kv.V)
			if string(kv.K) == InterfaceNameHeader {
				m[ServiceNameHeader] = string(kv.V)
			}
		}
	}
	var out []vref.KV
	for k, v := range m {
		out = append(out, vref.KV{K: []byte(k), V: []byte(v)})
	}
	return vref.SortedKVs(out), nil
}

func c01Adapter() *vc01.Adapter {
	trailer := vref.DubboFrame{Magic: vref.DubboMagic, Flag: vref.DubboHessian2, Status: 20, ID: 0x0102030405060708, Payload: []byte{0x91}}.Encode()
	return &vc01.Adapter{
		Codec: "dubbo",
		Proto: func(ctx context.Context) api.XProtocol { return dubboProtocol{} },
		Build: vc01.CacheBuild(func(c vc01.Case) (in, want []byte) {
			f := c01Ref(c)
			in = f.Encode()
			f.ID = c.NewID
			return in, f.Encode()
		}),
		Trailer: trailer,
		Ctx: func(ctx context.Context, c vc01.Case) context.Context {
			if c.Mode != "" {
				_ = variable.Set(ctx, types.VariableListenerName, c.Mode)
			}
			return ctx
		},
		Unsupported: func(c vc01.Case) string {
			if c01IsInvocation(c.Dir) && c.Kind == "sweep" && c.Field == "serialization" && byte(c.Val) != vref.DubboHessian2 {
				return "request-serialization-not-hessian2"
			}
			return ""
		},
		RefView: func(c vc01.Case, b []byte) (vc01.View, int, error) {
			f, n, err := vref.ParseDubbo(b)
			if err != nil {
				return vc01.View{}, n, err
			}
			h, err := c01Headers(c, f)
			if err != nil {
				return vc01.View{}, n, err
			}
			return vc01.View{Headers: h, Body: f.Payload, Fixed: map[string]uint64{"magic": uint64(f.Magic), "flag": uint64(f.Flag), "status": uint64(f.Status)}}, n, nil
		},
		ModBody: func(c vc01.Case, n int) []byte {
			if c01IsInvocation(c.Dir) {
				// a well-formed invocation whose binary argument has n bytes
				return c01Invocation(c, n).Encode()
			}
			return vref.Bytes(n, 9)
		},
	}
}

func c01Modes(dir string) []string {
	if c01IsInvocation(dir) {
		return []string{"", IngressDubbo}
	}
	return []string{""}
}

func c01FidelityCases(yield func(vc01.Case) bool) {
	wide := vreport.Thorough()
	emit := func(c vc01.Case) bool {
		c.Codec = "dubbo"
		for _, s := range []bool{false, true} {
			c.Scribble = s
			if !yield(c) {
				return false
			}
		}
		return true
	}
	for _, dir := range c01Dirs {
		for _, mode := range c01Modes(dir) {
			classes, shapes := []int{0}, []vref.HeaderShape{{}}
			if c01IsInvocation(dir) {
				classes, shapes = vref.Lens16, vref.HeaderShapes(0, wide)
				if !wide && (mode != "" || dir == "request-oneway") {
					// quick: the full shape set on two-way requests of a plain listener; the
					// one-way flag and the ingress listener mode with five shapes
					shapes = []vref.HeaderShape{{}, {Pairs: 1, KLen: 1, VLen: 1}, {Pairs: 2, KLen: 255, VLen: 256}, {Pairs: 300, KLen: 1, VLen: 1}, {Pairs: 1, KLen: 1, VLen: 65536}}
				}
			}
			for _, cl := range classes {
				for _, hs := range shapes {
					for _, bl := range vref.ContentLens {
						for _, id := range vref.IDs64 {
							for _, nid := range vc01.NewIDs(id, vref.IDs64, 1<<64-1) {
								if !emit(vc01.Case{Dir: dir, Kind: "product", Mode: mode, Class: cl, Hdr: hs, Body: bl, Seed: cl + bl, ID: id, NewID: nid}) {
									return
								}
							}
						}
					}
				}
			}
			for _, fd := range []struct {
				name string
				vals []uint64
			}{{"status", vref.Sweep(8)}, {"serialization", vref.Sweep(5)}} {
				for _, val := range fd.vals {
					if !emit(vc01.Case{Dir: dir, Kind: "sweep", Mode: mode, Field: fd.name, Val: val, Class: 7, Hdr: vref.HeaderShape{Pairs: 2, KLen: 1, VLen: 1}, Body: 9, Seed: 3, ID: 0x1122334455667788, NewID: 0x99aabbccddeeff00}) {
						return
					}
				}
			}
			if !emit(vc01.Case{Dir: dir, Kind: "zero", Mode: mode}) {
				return
			}
			if !emit(vc01.Case{Dir: dir, Kind: "max", Mode: mode, Class: 65535, Hdr: vref.HeaderShape{Pairs: 1, KLen: 1, VLen: 65536}, Body: 65536, Seed: 5, ID: 1<<64 - 1, NewID: 1<<64 - 2}) {
				return
			}
			for b := 0; b < 256; b++ {
				if !emit(vc01.Case{Dir: dir, Kind: "byte", Mode: mode, Val: uint64(b), Class: 1, Body: 1, ID: uint64(b), NewID: uint64(255 - b)}) {
					return
				}
			}
		}
	}
}

func c01ModCases(yield func(vc01.Case) bool) {
	wide := vreport.Thorough()
	for _, dir := range []string{"request", "response"} {
		for _, mode := range c01Modes(dir) {
			classes, shapes := []int{0}, []vref.HeaderShape{{}}
			bodies := []int{0, 1, 256, 65536}
			if c01IsInvocation(dir) {
				classes, shapes = []int{1, 256}, vc01.ModShapes(true, wide, 0)
			}
			if wide {
				bodies = vref.ContentLens
			}
			for _, cl := range classes {
				for _, hs := range shapes {
					for _, bl := range bodies {
						for _, mod := range vc01.ModsNoClass {
							if !vc01.ModTwins(vc01.Case{Codec: "dubbo", Dir: dir, Kind: "mod", Mode: mode, Mod: mod, Class: cl, Hdr: hs, Body: bl, Seed: cl + bl + 1, ID: 0x0a0b0c0d0e0f1011, NewID: 0xf1f2f3f4f5f6f7f8}, yield) {
								return
							}
						}
					}
				}
			}
		}
	}
}

func TestVerifC01DubboFidelity(t *testing.T) {
	p := vreport.Begin("C01", "dubbo-fidelity", time.Duration(vreport.Pick(60, 900))*time.Second)
	a := c01Adapter()
	complete := vreport.Run(p, c01FidelityCases, func(p *vreport.Part, c vc01.Case) { vc01.CheckFidelity(p, a, c) })
	p.End(complete,
		fmt.Sprintf("dirs %v; requests: modes {any listener, ingress_dubbo} x path length %v x attachment shapes (none,1,2,300 pairs x key/value %v, +one 65536-byte value; quick: five shapes for request-oneway and for ingress_dubbo) x binary-argument length %v x id %v; responses/events: payload length %v x id; x newid(quick: complement; thorough: all) x {buffer left alone, overwritten}; + {0,1,mid,max} of status and serialization id; + zero/max frames; + 256 one-byte bodies",
			c01Dirs, vref.Lens16, vref.PairLens, vref.ContentLens, vref.IDs64, vref.ContentLens),
		"every case = one reference frame (vref.DubboFrame, hessian2 invocation via dubbo-go-hessian2) followed by a second small frame in one read buffer: Decode, consumption == frame length, GetHeader/GetData/SetData(same)/SetRequestId(new)/Encode as xStream.endStream does — three times on the same frame object with the same data buffer object (first try + two retries; ids new, old, new), after which the data buffer must still read the same; bytes must equal the reference encoding with only the id replaced; scribble=true overwrites the whole read buffer after Decode. Requests whose serialization id is not hessian2 are refused by the codec by design (\"not hessian, do not support\"): enumerated, not compared")
}

func TestVerifC01DubboModify(t *testing.T) {
	p := vreport.Begin("C01", "dubbo-modify", time.Duration(vreport.Pick(60, 900))*time.Second)
	a := c01Adapter()
	complete := vreport.Run(p, c01ModCases, func(p *vreport.Part, c vc01.Case) { vc01.CheckMod(p, a, c) })
	p.End(complete, "dirs {request (both listener modes), response} x path {1,256} x attachment shapes with distinct keys x argument/payload length {0,1,256,65536 | thorough: all} x 10 modifications"+vc01.ModTwinsBound,
		"modification applied through HeaderMap.Set/Del and SetData; then three upstream attempts (SetData(same buffer object), SetRequestId, Encode): the first Encode must return an error or, like each later one, bytes that the reference parser AND a fresh Decode read back as exactly the modified headers/body with consistent lengths. The header view of a dubbo request is the service metadata (dubbo, service, version, method; plus the attachments on an ingress_dubbo listener)"+vc01.ModTwinsRule)
}
