//go:build verif

package bolt

import (
	"context"
	"testing"
	"time"

	"mosn.io/api"
	"mosn.io/mosn/pkg/verifrt/vc01"
	"mosn.io/mosn/pkg/verifrt/vreport"
)

// C01 forwarding fidelity, seam (a): the real bolt api.XProtocol driven the way
// the stream layer drives it, against the reference encoder/parser in vref.
// bolt frames through the bolt codec only; the bolt<->boltv2 delegation is
// exercised by the boltv2 unit (an in-package test of bolt cannot import boltv2).

func c01Adapter() *vc01.Adapter {
	return &vc01.Adapter{
		Codec:   "bolt",
		Proto:   func(ctx context.Context) api.XProtocol { return boltProtocol{} },
		Build:   vc01.BoltBuild(false),
		Trailer: vc01.BoltTrailer(false),
		RefView: vc01.BoltRefView,
		Class: func(f api.XFrame) string {
			switch r := f.(type) {
			case *Request:
				return r.Class
			case *Response:
				return r.Class
			}
			return ""
		},
		SetClass: func(f api.XFrame, s string) {
			switch r := f.(type) {
			case *Request:
				r.Class = s
			case *Response:
				r.Class = s
			}
		},
		MustAccept:    func(c vc01.Case, v vc01.View) bool { return true },
		Representable: vc01.BoltRepresentable,
	}
}

func TestVerifC01BoltFidelity(t *testing.T) {
	p := vreport.Begin("C01", "bolt-fidelity", time.Duration(vreport.Pick(60, 900))*time.Second)
	a := c01Adapter()
	modes := []string{""}
	complete := vreport.Run(p,
		func(yield func(vc01.Case) bool) { vc01.BoltFidelityCases("bolt", false, modes, false, yield) },
		func(p *vreport.Part, c vc01.Case) { vc01.CheckFidelity(p, a, c) })
	p.End(complete, vc01.BoltBound(modes),
		"every case = one reference frame (vref.BoltFrame.Encode) followed by a second small frame in one read buffer: Decode, consumption == frame length, GetHeader/GetData/SetData(same)/SetRequestId(new)/Encode as xStream.endStream does — three times on the same frame object with the same data buffer object (first try + two retries; ids new, old, new), after which the data buffer must still read the same; bytes must equal the reference encoding with only the id replaced; scribble=true additionally overwrites the whole read buffer after Decode. distinct = distinct (dir,kind,lengths,shape,ids,field,value)")
}

func TestVerifC01BoltModify(t *testing.T) {
	p := vreport.Begin("C01", "bolt-modify", time.Duration(vreport.Pick(60, 900))*time.Second)
	a := c01Adapter()
	modes := []string{""}
	complete := vreport.Run(p,
		func(yield func(vc01.Case) bool) { vc01.BoltModCases("bolt", false, modes, yield) },
		func(p *vreport.Part, c vc01.Case) { vc01.CheckMod(p, a, c) })
	p.End(complete, "dirs x class {0,1,256 | thorough: all} x header shapes with distinct keys x content {0,1,256,65536 | thorough: all} x 13 modifications"+vc01.ModTwinsBound,
		"modification applied through HeaderMap.Set/Del, SetData, (Class field + a header write); then three upstream attempts (SetData(same buffer object), SetRequestId, Encode): the first Encode must return an error or, like each later one, bytes that the reference parser AND a fresh Decode read back as exactly the modified class/headers/body, unmodified fixed fields, consistent lengths; an error is accepted only for content that does not fit the 16-bit class/header-block fields"+vc01.ModTwinsRule)
}

// Non-canonical header blocks (null strings as sofa-bolt java writes them, empty
// and duplicate keys, ... every block of a few strings): accepted? forwarded
// unmodified byte-identically? re-encoded with consistent lengths after a
// modification? See vc01/noncanon.go.
func TestVerifC01BoltHeaderForms(t *testing.T) {
	p := vreport.Begin("C01", "bolt-header-forms", time.Duration(vreport.Pick(60, 900))*time.Second)
	a := c01Adapter()
	modes := []string{""}
	complete := vreport.Run(p,
		func(yield func(vc01.Case) bool) { vc01.BoltFormCases("bolt", modes, yield) },
		func(p *vreport.Part, c vc01.Case) { vc01.CheckForm(p, a, c) })
	p.End(complete, vc01.BoltFormBound(modes), vc01.BoltFormRule)
}
