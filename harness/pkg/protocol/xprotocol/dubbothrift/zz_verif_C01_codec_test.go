//go:build verif

package dubbothrift

import (
	"context"
	"fmt"
	"strconv"
	"testing"
	"time"

	"mosn.io/api"
	"mosn.io/mosn/pkg/verifrt/vc01"
	"mosn.io/mosn/pkg/verifrt/vref"
	"mosn.io/mosn/pkg/verifrt/vreport"
)

// C01 forwarding fidelity, seam (a): the real dubbo-thrift api.XProtocol
// against vref.DubboThriftFrame (thrift message written with apache/thrift,
// frame header and the reference parser written by hand).
//
// Directions: request (thrift CALL), response (REPLY), response-exception
// (EXCEPTION). Case mapping: Class = service name length, Hdr.KLen = method
// name length, Body = length of the binary field of the argument/result struct.

var c01Dirs = []string{"request", "response", "response-exception"}

// the header-size field is 16 bits and counts 21 bytes besides the service name
var c01ServiceLens = []int{0, 1, 255, 256, 65535 - 21}

func c01Type(dir string) byte {
	switch dir {
	case "request":
		return 1
	case "response":
		return 2
	}
	return 3
}

func c01Ref(c vc01.Case) vref.DubboThriftFrame {
	f := vref.DubboThriftFrame{Magic: vref.DubboThriftMagic, Version: 1, ID: c.ID, MsgType: c01Type(c.Dir), SeqID: 7,
		Service: vref.ASCII(c.Class, c.Seed+1), Method: vref.ASCII(c.Hdr.KLen, c.Seed+2)}
	switch c.Kind {
	case "sweep":
		switch c.Field {
		case "version":
			f.Version = byte(c.Val)
		case "seqid":
			f.SeqID = int32(uint32(c.Val))
		default:
			panic("field " + c.Field)
		}
	case "zero":
		f.Version, f.SeqID = 0, 0
	case "max":
		f.Version, f.SeqID = 255, -1
	}
	switch c.Kind {
	case "zero":
		f.Args = vref.ThriftArgs(nil)
	case "byte":
		f.Args = vref.ThriftArgs([]byte{byte(c.Val)})
	default:
		f.Args = vref.ThriftArgs(vref.Bytes(c.Body, c.Seed))
	}
	return f
}

func c01Adapter() *vc01.Adapter {
	trailer := vref.DubboThriftFrame{Magic: vref.DubboThriftMagic, Version: 1, ID: 0x0102030405060708, MsgType: 2, SeqID: 1,
		Service: []byte("t"), Method: []byte("m"), Args: vref.ThriftArgs(nil)}.Encode()
	return &vc01.Adapter{
		Codec: "dubbothrift",
		Proto: func(ctx context.Context) api.XProtocol { return thriftProtocol{} },
		Build: vc01.CacheBuild(func(c vc01.Case) (in, want []byte) {
			f := c01Ref(c)
			in = f.Encode()
			f.ID = c.NewID
			return in, f.Encode()
		}),
		Trailer: trailer,
		RefView: func(c vc01.Case, b []byte) (vc01.View, int, error) {
			f, n, err := vref.ParseDubboThrift(b)
			if err != nil {
				return vc01.View{}, n, err
			}
			h := vref.SortedKVs([]vref.KV{
				{K: []byte(ServiceNameHeader), V: f.Service},
				{K: []byte(MethodNameHeader), V: f.Method},
				{K: []byte(SeqIdNameHeader), V: []byte(strconv.Itoa(int(f.SeqID)))},
				{K: []byte(MessageTypeNameHeader), V: []byte(strconv.Itoa(int(f.MsgType)))},
			})
			return vc01.View{Headers: h, Body: f.Message(), Fixed: map[string]uint64{"magic": uint64(f.Magic), "version": uint64(f.Version), "msgtype": uint64(f.MsgType), "seqid": uint64(uint32(f.SeqID))}}, n, nil
		},
		ModBody: func(c vc01.Case, n int) []byte {
			// a well-formed thrift message whose binary field has n bytes
			f := c01Ref(c)
			f.Args = vref.ThriftArgs(vref.Bytes(n, 9))
			return f.Message()
		},
	}
}

func c01FidelityCases(yield func(vc01.Case) bool) {
	emit := func(c vc01.Case) bool {
		c.Codec = "dubbothrift"
		for _, s := range []bool{false, true} {
			c.Scribble = s
			if !yield(c) {
				return false
			}
		}
		return true
	}
	for _, dir := range c01Dirs {
		for _, cl := range c01ServiceLens {
			for _, ml := range vref.Lens16 {
				for _, bl := range vref.ContentLens {
					for _, id := range vref.IDs64 {
						for _, nid := range vc01.NewIDs(id, vref.IDs64, 1<<64-1) {
							if !emit(vc01.Case{Dir: dir, Kind: "product", Class: cl, Hdr: vref.HeaderShape{Pairs: 1, KLen: ml}, Body: bl, Seed: cl + bl, ID: id, NewID: nid}) {
								return
							}
						}
					}
				}
			}
		}
		for _, fd := range []struct {
			name string
			vals []uint64
		}{{"version", vref.Sweep(8)}, {"seqid", vref.Sweep(32)}} {
			for _, val := range fd.vals {
				if !emit(vc01.Case{Dir: dir, Kind: "sweep", Field: fd.name, Val: val, Class: 7, Hdr: vref.HeaderShape{Pairs: 1, KLen: 5}, Body: 9, Seed: 3, ID: 0x1122334455667788, NewID: 0x99aabbccddeeff00}) {
					return
				}
			}
		}
		if !emit(vc01.Case{Dir: dir, Kind: "zero"}) {
			return
		}
		if !emit(vc01.Case{Dir: dir, Kind: "max", Class: 65535 - 21, Hdr: vref.HeaderShape{Pairs: 1, KLen: 65535}, Body: 65536, Seed: 5, ID: 1<<64 - 1, NewID: 1<<64 - 2}) {
			return
		}
		for b := 0; b < 256; b++ {
			if !emit(vc01.Case{Dir: dir, Kind: "byte", Val: uint64(b), Class: 1, Hdr: vref.HeaderShape{Pairs: 1, KLen: 1}, Body: 1, ID: uint64(b), NewID: uint64(255 - b)}) {
				return
			}
		}
	}
}

func c01ModCases(yield func(vc01.Case) bool) {
	classes, methods, bodies := []int{1, 256}, []int{1, 256}, []int{0, 1, 256, 65536}
	if vreport.Thorough() {
		classes, methods, bodies = c01ServiceLens, vref.Lens16, vref.ContentLens
	}
	// EXCEPTION shares every code path with REPLY: modifications on request and response
	for _, dir := range c01Dirs[:2] {
		for _, cl := range classes {
			for _, ml := range methods {
				for _, bl := range bodies {
					for _, mod := range vc01.ModsNoClass {
						if !vc01.ModTwins(vc01.Case{Codec: "dubbothrift", Dir: dir, Kind: "mod", Mod: mod, Class: cl, Hdr: vref.HeaderShape{Pairs: 1, KLen: ml}, Body: bl, Seed: cl + bl + 1, ID: 0x0a0b0c0d0e0f1011, NewID: 0xf1f2f3f4f5f6f7f8}, yield) {
							return
						}
					}
				}
			}
		}
	}
}

func TestVerifC01DubboThriftFidelity(t *testing.T) {
	p := vreport.Begin("C01", "dubbothrift-fidelity", time.Duration(vreport.Pick(60, 900))*time.Second)
	a := c01Adapter()
	complete := vreport.Run(p, c01FidelityCases, func(p *vreport.Part, c vc01.Case) { vc01.CheckFidelity(p, a, c) })
	p.End(complete,
		fmt.Sprintf("dirs %v x service-name length %v (65514 = largest the 16-bit header size allows) x method-name length %v x binary-field length %v x id %v x newid(quick: complement; thorough: all) x {buffer left alone, overwritten}; + {0,1,mid,max} of version and seqid; + zero/max frames; + 256 one-byte bodies",
			c01Dirs, c01ServiceLens, vref.Lens16, vref.ContentLens, vref.IDs64),
		"every case = one reference frame (vref.DubboThriftFrame; thrift message by apache/thrift) followed by a second small frame in one read buffer: Decode, consumption == frame length, GetHeader/GetData/SetData(same)/SetRequestId(new)/Encode as xStream.endStream does — three times on the same frame object with the same data buffer object (first try + two retries; ids new, old, new), after which the data buffer must still read the same; bytes must equal the reference encoding with only the id replaced; scribble=true overwrites the whole read buffer after Decode")
}

func TestVerifC01DubboThriftModify(t *testing.T) {
	p := vreport.Begin("C01", "dubbothrift-modify", time.Duration(vreport.Pick(60, 900))*time.Second)
	a := c01Adapter()
	complete := vreport.Run(p, c01ModCases, func(p *vreport.Part, c vc01.Case) { vc01.CheckMod(p, a, c) })
	p.End(complete, "dirs {request, response} x service {1,256 | thorough: all} x method {1,256 | all} x binary field {0,1,256,65536 | all} x 10 modifications"+vc01.ModTwinsBound,
		"modification applied through HeaderMap.Set/Del and SetData; then three upstream attempts (SetData(same buffer object), SetRequestId, Encode): the first Encode must return an error or, like each later one, bytes that the reference parser AND a fresh Decode read back as exactly the modified headers/body with consistent lengths. Header view = service, method, seqId, messageType; body = the thrift message"+vc01.ModTwinsRule)
}
